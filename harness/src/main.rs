//! agv — one binary, one subcommand per property.
//!   agv <Cxx> [--tier quick|thorough] [--replay <file>]
//! Without --worker the process is a supervisor: it runs itself as a worker so
//! that an abort (allocation failure, stack overflow) or a hang in the code
//! under test kills only the worker and is turned into a replayable violation.
mod core;
mod refmodel;
mod props;

use crate::core::*;
use std::process::{Command, Stdio};

fn usage() -> ! {
    eprintln!("usage: agv <C01..C20> [--tier quick|thorough] [--replay file] ");
    std::process::exit(2)
}

pub struct Args {
    pub prop: String,
    pub tier: Tier,
    pub seed: u64,
    pub worker: bool,
    pub one: Option<(u64, u64)>,
    pub replay: Option<String>,
}

fn parse() -> Args {
    let a: Vec<String> = std::env::args().collect();
    if a.len() < 2 {
        usage();
    }
    let mut args = Args {
        prop: a[1].to_uppercase(),
        tier: match std::env::var("VERIF_TIER").as_deref() {
            Ok("thorough") => Tier::Thorough,
            _ => Tier::Quick,
        },
        seed: std::env::var("VERIF_SEED").ok().and_then(|s| s.parse().ok()).unwrap_or(0),
        worker: false,
        one: None,
        replay: None,
    };
    let mut i = 2;
    while i < a.len() {
        match a[i].as_str() {
            "--tier" => {
                i += 1;
                args.tier = match a.get(i).map(|s| s.as_str()) {
                    Some("quick") => Tier::Quick,
                    Some("thorough") => Tier::Thorough,
                    _ => usage(),
                }
            }
            "quick" => args.tier = Tier::Quick,
            "thorough" => args.tier = Tier::Thorough,
            "--seed" => {
                i += 1;
                args.seed = a.get(i).and_then(|s| s.parse().ok()).unwrap_or_else(|| usage());
            }
            "--worker" => args.worker = true,
            "--one" => {
                let o = a.get(i + 1).and_then(|s| s.parse().ok()).unwrap_or_else(|| usage());
                let x = a.get(i + 2).and_then(|s| s.parse().ok()).unwrap_or_else(|| usage());
                args.one = Some((o, x));
                i += 2;
            }
            "--replay" => {
                i += 1;
                args.replay = Some(a.get(i).cloned().unwrap_or_else(|| usage()));
            }
            _ => usage(),
        }
        i += 1;
    }
    args
}

fn crash_file(prop: &str) -> String {
    let dir = format!("{}/.build/run", verif_dir());
    let _ = std::fs::create_dir_all(&dir);
    format!("{dir}/crash-{prop}-{}.txt", std::process::id())
}

fn main() {
    let args = parse();
    if args.worker {
        install_panic_hook();
        let cf = std::env::var("AGV_CRASH_FILE").unwrap_or_else(|_| crash_file(&args.prop));
        install_crash_handlers(&cf);
        // rayon workers run reconstruction code with deep recursion in places
        rayon::ThreadPoolBuilder::new()
            .stack_size(16 * 1024 * 1024)
            .build_global()
            .expect("thread pool");
        let code = props::dispatch(&args);
        flush();
        std::process::exit(code);
    }
    if let Some(file) = &args.replay {
        std::process::exit(replay(&args, file));
    }
    std::process::exit(supervise(&args));
}

fn worker_cmd(args: &Args, tier: Tier, one: Option<(u64, u64)>, cf: &str) -> Command {
    let exe = std::env::current_exe().expect("current_exe");
    let mut c = Command::new(exe);
    c.arg(&args.prop)
        .arg("--tier")
        .arg(tier.name())
        .arg("--seed")
        .arg(args.seed.to_string())
        .arg("--worker")
        .env("AGV_CRASH_FILE", cf);
    if let Some((o, i)) = one {
        c.arg("--one").arg(o.to_string()).arg(i.to_string());
    }
    c
}

fn run_with_timeout(mut c: Command, secs: u64) -> (Option<i32>, String, bool) {
    c.stdout(Stdio::piped());
    let mut child = c.spawn().expect("spawn worker");
    let start = std::time::Instant::now();
    let mut out = String::new();
    let mut stdout = child.stdout.take().unwrap();
    let h = std::thread::spawn(move || {
        let mut s = String::new();
        use std::io::Read;
        let _ = stdout.read_to_string(&mut s);
        s
    });
    loop {
        match child.try_wait().expect("wait") {
            Some(st) => {
                out.push_str(&h.join().unwrap_or_default());
                return (st.code(), out, false);
            }
            None => {
                if start.elapsed().as_secs() > secs {
                    let _ = child.kill();
                    let _ = child.wait();
                    out.push_str(&h.join().unwrap_or_default());
                    return (None, out, true);
                }
                std::thread::sleep(std::time::Duration::from_millis(20));
            }
        }
    }
}

fn supervise(args: &Args) -> i32 {
    let cf = crash_file(&args.prop);
    let _ = std::fs::remove_file(&cf);
    let mut c = worker_cmd(args, args.tier, args.one, &cf);
    let st = c.status().expect("spawn worker");
    match st.code() {
        Some(0) => return 0,
        Some(1) => return 1,
        Some(2) => return 2,
        _ => {}
    }
    // The worker died (signal / abort / watchdog). Find the case.
    let slots = std::fs::read_to_string(&cf).unwrap_or_default();
    let _ = std::fs::remove_file(&cf);
    let mut cands: Vec<(String, u64, u64)> = Vec::new();
    for line in slots.lines() {
        if let Some(rest) = line.strip_prefix("CRASHSLOT ") {
            let mut kind = String::new();
            let (mut sub, mut idx) = (0u64, 0u64);
            for kv in rest.split_whitespace() {
                if let Some(v) = kv.strip_prefix("kind=") {
                    kind = v.into();
                } else if let Some(v) = kv.strip_prefix("sub=") {
                    sub = v.parse().unwrap_or(0);
                } else if let Some(v) = kv.strip_prefix("idx=") {
                    idx = v.parse().unwrap_or(0);
                }
            }
            cands.push((kind, sub, idx));
        }
    }
    eprintln!("agv: worker for {} died ({:?}); {} candidate case(s) to re-run in isolation", args.prop, st, cands.len());
    if cands.is_empty() {
        eprintln!("agv: MACHINERY FAILURE: worker died without a crash slot file");
        return 2;
    }
    let mut found = 0;
    for (kind, sub, idx) in cands {
        let cf1 = format!("{cf}.one");
        let c = worker_cmd(args, args.tier, Some((sub, idx)), &cf1);
        let limit = if kind == "hang" { 900 } else { 600 };
        let (code, out, timed_out) = run_with_timeout(c, limit);
        let _ = std::fs::remove_file(&cf1);
        print!("{}", out.lines().filter(|l| l.starts_with("VIOLATION") || l.starts_with("KNOWN-FINDING")).map(|l| format!("{l}\n")).collect::<String>());
        match code {
            Some(0) => {}
            Some(1) => found += 1,
            _ => {
                // reproduced: abort or hang in isolation
                let what = if timed_out || kind == "hang" { "hang" } else { "abort" };
                let path = format!("{}/replays/{}-crash-{}-{}.json", verif_dir(), args.prop, sub, idx);
                let _ = std::fs::create_dir_all(format!("{}/replays", verif_dir()));
                let body = serde_json::json!({
                    "property": args.prop, "tier": args.tier.name(), "seed": args.seed,
                    "key": format!("{what}:process"), "ord": sub, "idx": idx,
                    "detail": {"what": format!("worker {what}s on this case when run alone"), "status": format!("{code:?}")},
                });
                std::fs::write(&path, serde_json::to_string_pretty(&body).unwrap()).unwrap();
                println!("VIOLATION property={} replay={}", args.prop, path);
                found += 1;
            }
        }
    }
    if found > 0 {
        // minimal evidence so that the file reflects this run
        let ev = serde_json::json!({
            "property_id": args.prop, "tier": args.tier.name(), "seed": args.seed, "level": "exploration",
            "coverage": {"evaluations": 1, "distinct_nontrivial": 2, "rule": "worker died; candidates re-run in isolation",
                "samples": ["see replay files"], "explanation": "run aborted by a crash/hang of the code under test"},
            "wall_s": 0.0, "violations": found
        });
        let _ = std::fs::write(format!("{}/evidence/{}.json", verif_dir(), args.prop), serde_json::to_string_pretty(&ev).unwrap());
        1
    } else {
        eprintln!("agv: MACHINERY FAILURE: worker died but no candidate case reproduces in isolation");
        2
    }
}

fn replay(args: &Args, file: &str) -> i32 {
    let s = std::fs::read_to_string(file).unwrap_or_else(|e| {
        eprintln!("cannot read {file}: {e}");
        std::process::exit(2)
    });
    let v: serde_json::Value = serde_json::from_str(&s).expect("replay file json");
    let tier = if v["tier"] == "thorough" { Tier::Thorough } else { Tier::Quick };
    let ord = v["ord"].as_u64().expect("ord");
    let idx = v["idx"].as_u64().expect("idx");
    let mut outs = Vec::new();
    for _ in 0..2 {
        let cf = crash_file(&args.prop);
        // ord 0 = an oracle over the whole run: replay by re-running everything
        let c = worker_cmd(args, tier, if ord == 0 { None } else { Some((ord, idx)) }, &cf);
        let (code, out, to) = run_with_timeout(c, 900);
        let _ = std::fs::remove_file(&cf);
        let lines: Vec<String> = out
            .lines()
            .filter(|l| l.starts_with("VIOLATION") || l.starts_with("KNOWN-FINDING"))
            .map(|l| l.to_string())
            .collect();
        outs.push((code, to, lines));
    }
    if outs[0] != outs[1] {
        eprintln!("agv: MACHINERY FAILURE: replay diverged between two runs: {:?}", outs);
        return 2;
    }
    for l in &outs[0].2 {
        println!("{l}");
    }
    match outs[0].0 {
        Some(0) => {
            println!("replay: case passes");
            0
        }
        Some(1) => 1,
        _ => {
            println!("VIOLATION property={} replay={}", args.prop, file);
            1
        }
    }
}
