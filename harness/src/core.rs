//! Exploration core: index-addressed case enumeration on a worker pool, panic
//! capture, crash/hang slots for the supervisor, evidence, replay files and
//! known findings.
use serde_json::{json, Value};
use std::collections::{BTreeMap, HashSet};
use std::hash::{Hash, Hasher};
use std::io::Write;
use std::panic::{catch_unwind, AssertUnwindSafe};
use std::sync::atomic::{AtomicBool, AtomicU64, Ordering};
use std::sync::Mutex;
use std::time::Instant;

/// Repository under test (AGV_REPO is only set by bin/seed-matrix for a private copy; default /repo).
pub fn repo_dir() -> String {
    std::env::var("AGV_REPO").unwrap_or_else(|_| "/repo".to_string())
}
/// Root of the verification tree (AGV_ROOT is set by bin/check; default /verif).
pub fn verif_dir() -> String {
    std::env::var("AGV_ROOT").unwrap_or_else(|_| "/verif".to_string())
}

#[derive(Clone, Copy, PartialEq, Eq, Debug)]
pub enum Tier {
    Quick,
    Thorough,
}
impl Tier {
    pub fn name(self) -> &'static str {
        match self {
            Tier::Quick => "quick",
            Tier::Thorough => "thorough",
        }
    }
    pub fn pick<T>(self, q: T, t: T) -> T {
        match self {
            Tier::Quick => q,
            Tier::Thorough => t,
        }
    }
}

// ---------------------------------------------------------------------------
// panic capture
// ---------------------------------------------------------------------------
thread_local! {
    static LAST_PANIC: std::cell::RefCell<Option<String>> = const { std::cell::RefCell::new(None) };
    static QUIET: std::cell::Cell<bool> = const { std::cell::Cell::new(false) };
}

pub fn install_panic_hook() {
    let default = std::panic::take_hook();
    std::panic::set_hook(Box::new(move |info| {
        let msg = format!("{info}");
        if QUIET.with(|q| q.get()) {
            LAST_PANIC.with(|p| *p.borrow_mut() = Some(msg));
        } else {
            default(info);
        }
    }));
}

/// Run the subject; a panic becomes `Err(message with location)`.
pub fn guard<T>(f: impl FnOnce() -> T) -> Result<T, String> {
    let prev = QUIET.with(|q| q.replace(true));
    let r = catch_unwind(AssertUnwindSafe(f));
    QUIET.with(|q| q.set(prev));
    match r {
        Ok(v) => Ok(v),
        Err(_) => Err(LAST_PANIC
            .with(|p| p.borrow_mut().take())
            .unwrap_or_else(|| "panic (no message)".into())),
    }
}

pub fn hash64<T: Hash + ?Sized>(t: &T) -> u64 {
    // FNV-style stable hasher (std's SipHash with fixed keys would also do).
    struct H(u64);
    impl Hasher for H {
        fn finish(&self) -> u64 {
            self.0
        }
        fn write(&mut self, bytes: &[u8]) {
            for &b in bytes {
                self.0 ^= b as u64;
                self.0 = self.0.wrapping_mul(0x100000001b3);
            }
        }
    }
    let mut h = H(0xcbf29ce484222325);
    t.hash(&mut h);
    // final avalanche
    let mut x = h.0;
    x ^= x >> 33;
    x = x.wrapping_mul(0xff51afd7ed558ccd);
    x ^= x >> 33;
    x
}

// ---------------------------------------------------------------------------
// crash / hang slots
// ---------------------------------------------------------------------------
const MAX_THREADS: usize = 128;
static SLOT_IDX: [AtomicU64; MAX_THREADS] = [const { AtomicU64::new(0) }; MAX_THREADS];
static SLOT_SINCE: [AtomicU64; MAX_THREADS] = [const { AtomicU64::new(0) }; MAX_THREADS];
static CUR_SUB: AtomicU64 = AtomicU64::new(0);
static HANG_LIMIT_S: AtomicU64 = AtomicU64::new(60);
static WATCHDOG_ON: AtomicBool = AtomicBool::new(false);
static mut CRASH_PATH: [u8; 256] = [0; 256];

fn now_s() -> u64 {
    static START: std::sync::OnceLock<Instant> = std::sync::OnceLock::new();
    START.get_or_init(Instant::now).elapsed().as_secs() + 1
}

fn thread_slot() -> usize {
    rayon::current_thread_index().map(|i| i + 1).unwrap_or(0) % MAX_THREADS
}

fn dump_slots(fd: i32, kind: &[u8], only: Option<usize>) {
    // async-signal-safe: only write(2) on preformatted small buffers.
    let sub = CUR_SUB.load(Ordering::Relaxed);
    for t in 0..MAX_THREADS {
        if let Some(o) = only {
            if o != t {
                continue;
            }
        }
        let v = SLOT_IDX[t].load(Ordering::Relaxed);
        if v == 0 {
            continue;
        }
        let mut buf = [0u8; 96];
        let mut n = 0;
        let mut put = |s: &[u8], n: &mut usize| {
            for &b in s {
                if *n < buf.len() {
                    buf[*n] = b;
                    *n += 1;
                }
            }
        };
        put(b"CRASHSLOT kind=", &mut n);
        put(kind, &mut n);
        put(b" sub=", &mut n);
        put_num(sub, &mut put, &mut n);
        put(b" idx=", &mut n);
        put_num(v - 1, &mut put, &mut n);
        put(b"\n", &mut n);
        unsafe {
            libc::write(fd, buf.as_ptr() as *const libc::c_void, n);
        }
    }
}
fn put_num(mut v: u64, put: &mut impl FnMut(&[u8], &mut usize), n: &mut usize) {
    let mut d = [0u8; 20];
    let mut k = 0;
    if v == 0 {
        d[0] = b'0';
        k = 1;
    }
    while v > 0 {
        d[k] = b'0' + (v % 10) as u8;
        v /= 10;
        k += 1;
    }
    d[..k].reverse();
    put(&d[..k], n);
}

static IN_FATAL_HANDLER: AtomicBool = AtomicBool::new(false);

extern "C" fn on_fatal_signal(sig: i32) {
    // several worker threads can abort at the same moment: the first one to arrive dumps the slots and ends the
    // process, the others wait (a second O_TRUNC open could otherwise empty the file just before _exit)
    if IN_FATAL_HANDLER.swap(true, Ordering::SeqCst) {
        loop {
            unsafe {
                libc::pause();
            }
        }
    }
    unsafe {
        let fd = libc::open(
            std::ptr::addr_of!(CRASH_PATH) as *const libc::c_char,
            libc::O_WRONLY | libc::O_CREAT | libc::O_TRUNC,
            0o644,
        );
        if fd >= 0 {
            dump_slots(fd, if sig == libc::SIGABRT { b"abort" } else { b"signal" }, None);
            libc::close(fd);
        }
        libc::_exit(3);
    }
}

pub fn install_crash_handlers(crash_file: &str) {
    unsafe {
        let b = crash_file.as_bytes();
        let dst = std::ptr::addr_of_mut!(CRASH_PATH) as *mut u8;
        for (i, &c) in b.iter().enumerate().take(255) {
            *dst.add(i) = c;
        }
        for sig in [libc::SIGABRT, libc::SIGBUS, libc::SIGILL, libc::SIGFPE] {
            libc::signal(sig, on_fatal_signal as usize);
        }
    }
    let _ = std::fs::remove_file(crash_file);
    if !WATCHDOG_ON.swap(true, Ordering::SeqCst) {
        let path = crash_file.to_string();
        std::thread::spawn(move || loop {
            std::thread::sleep(std::time::Duration::from_millis(500));
            let now = now_s();
            let lim = HANG_LIMIT_S.load(Ordering::Relaxed);
            for t in 0..MAX_THREADS {
                let v = SLOT_IDX[t].load(Ordering::Relaxed);
                let since = SLOT_SINCE[t].load(Ordering::Relaxed);
                if v != 0 && since != 0 && now > since + lim {
                    // re-check it is still the same case
                    if SLOT_IDX[t].load(Ordering::Relaxed) == v {
                        if let Ok(f) = std::fs::File::create(&path) {
                            use std::os::fd::AsRawFd;
                            dump_slots(f.as_raw_fd(), b"hang", Some(t));
                        }
                        eprintln!("agv: watchdog: case stuck for more than {lim}s");
                        unsafe { libc::_exit(3) };
                    }
                }
            }
        });
    }
}

// ---------------------------------------------------------------------------
// Report
// ---------------------------------------------------------------------------
#[derive(Clone, Debug)]
pub struct Violation {
    pub key: String,
    pub sub: String,
    pub ord: u64,
    pub idx: u64,
    pub detail: Value,
}

#[derive(Default)]
pub struct SubStats {
    pub name: String,
    pub ord: u64,
    pub cases: u64,
    pub evaluations: u64,
    pub nontrivial: u64,
    pub exhaustive: bool,
    pub note: String,
    pub hist: BTreeMap<String, u64>,
    pub wall_s: f64,
    pub digest: u64,
}

pub struct Local {
    pub sub: String,
    pub ord: u64,
    pub idx: u64,
    pub evaluations: u64,
    pub hist: BTreeMap<&'static str, u64>,
    pub hist_dyn: BTreeMap<String, u64>,
    pub distinct: Vec<u64>,
    pub samples: Vec<Value>,
    pub violations: Vec<Violation>,
    pub extra: BTreeMap<&'static str, u64>,
    pub digest: u64,
    pub bulk_distinct: u64,
    sample_cap: usize,
}

impl Local {
    fn new(sub: &str, ord: u64, sample_cap: usize) -> Self {
        Local {
            sub: sub.into(),
            ord,
            idx: 0,
            evaluations: 0,
            hist: BTreeMap::new(),
            hist_dyn: BTreeMap::new(),
            distinct: Vec::new(),
            samples: Vec::new(),
            violations: Vec::new(),
            extra: BTreeMap::new(),
            digest: 0,
            bulk_distinct: 0,
            sample_cap,
        }
    }
    /// One evaluation of the subject on an input with hash `h`; `nontrivial`
    /// by the property's stated rule; `outcome` goes to the histogram.
    pub fn note(&mut self, h: u64, nontrivial: bool, outcome: &'static str) {
        self.evaluations += 1;
        self.digest = self.digest.wrapping_add(hash64(&(self.idx, h, outcome)));
        *self.hist.entry(outcome).or_insert(0) += 1;
        if nontrivial {
            self.distinct.push(h);
        }
    }
    pub fn note_dyn(&mut self, h: u64, nontrivial: bool, outcome: String) {
        self.evaluations += 1;
        self.digest = self.digest.wrapping_add(hash64(&(self.idx, h, outcome.as_str())));
        *self.hist_dyn.entry(outcome).or_insert(0) += 1;
        if nontrivial {
            self.distinct.push(h);
        }
    }
    /// Dense sweeps whose inputs are distinct by construction: count without
    /// storing a hash per input.
    pub fn bulk(&mut self, evaluations: u64, nontrivial_distinct: u64, outcome: &'static str) {
        self.evaluations += evaluations;
        self.bulk_distinct += nontrivial_distinct;
        *self.hist.entry(outcome).or_insert(0) += evaluations;
    }
    /// Fold a caller-computed outcome digest of a bulk case into the sub-run digest (two-build comparison).
    pub fn add_digest(&mut self, d: u64) {
        self.digest = self.digest.wrapping_add(hash64(&(self.idx, d)));
    }
    pub fn violations_len(&self) -> usize {
        self.violations.len()
    }
    pub fn count(&mut self, key: &'static str, n: u64) {
        *self.extra.entry(key).or_insert(0) += n;
    }
    pub fn want_sample(&self) -> bool {
        self.samples.len() < self.sample_cap
    }
    pub fn sample(&mut self, v: Value) {
        if self.samples.len() < self.sample_cap {
            self.samples.push(v);
        }
    }
    pub fn violation(&mut self, key: impl Into<String>, detail: Value) {
        let key: String = key.into();
        // keep a few cases per key, but never drop a key
        if self.violations.len() < 20_000 && self.violations.iter().filter(|v| v.key == key).count() < 3 {
            self.violations.push(Violation {
                key,
                sub: self.sub.clone(),
                ord: self.ord,
                idx: self.idx,
                detail,
            });
        }
    }
}

pub struct Report {
    pub prop: String,
    pub tier: Tier,
    pub seed: u64,
    pub level: &'static str,
    pub start: Instant,
    pub one: Option<(u64, u64)>,
    pub subs: Mutex<Vec<SubStats>>,
    pub distinct: Mutex<HashSet<u64>>,
    pub distinct_capped: AtomicBool,
    pub bulk_distinct: AtomicU64,
    pub samples: Mutex<Vec<Value>>,
    pub violations: Mutex<Vec<Violation>>,
    pub extra: Mutex<BTreeMap<String, u64>>,
    pub assumptions: Mutex<Vec<String>>,
    pub rule: Mutex<String>,
    pub coverage_extra: Mutex<serde_json::Map<String, Value>>,
    next_ord: AtomicU64,
}

const DISTINCT_CAP: usize = 40_000_000;

impl Report {
    pub fn new(prop: &str, tier: Tier, seed: u64, level: &'static str, one: Option<(u64, u64)>) -> Self {
        Report {
            prop: prop.into(),
            tier,
            seed,
            level,
            start: Instant::now(),
            one,
            subs: Mutex::new(Vec::new()),
            distinct: Mutex::new(HashSet::new()),
            distinct_capped: AtomicBool::new(false),
            bulk_distinct: AtomicU64::new(0),
            samples: Mutex::new(Vec::new()),
            violations: Mutex::new(Vec::new()),
            extra: Mutex::new(BTreeMap::new()),
            assumptions: Mutex::new(Vec::new()),
            rule: Mutex::new(String::new()),
            coverage_extra: Mutex::new(serde_json::Map::new()),
            next_ord: AtomicU64::new(1),
        }
    }
    pub fn assume(&self, s: &str) {
        self.assumptions.lock().unwrap().push(s.into());
    }
    pub fn set_rule(&self, s: &str) {
        *self.rule.lock().unwrap() = s.into();
    }
    pub fn cov(&self, k: &str, v: Value) {
        self.coverage_extra.lock().unwrap().insert(k.into(), v);
    }
    /// A violation of an oracle that spans several cases (sequence / aggregate
    /// oracles). Replayed by re-running the whole check (ord 0).
    pub fn violation_global(&self, key: &str, detail: Value) {
        if self.one.is_some() {
            return;
        }
        self.violations.lock().unwrap().push(Violation { key: key.into(), sub: "whole-run oracle".into(), ord: 0, idx: 0, detail });
    }
    pub fn add_extra(&self, k: &str, n: u64) {
        *self.extra.lock().unwrap().entry(k.into()).or_insert(0) += n;
    }
    pub fn get_extra(&self, k: &str) -> u64 {
        self.extra.lock().unwrap().get(k).copied().unwrap_or(0)
    }

    /// Run cases `0..n` of sub-run `name` on the pool. `hang_s` is the per-case
    /// watchdog limit. `exhaustive` states that `0..n` is the complete finite
    /// space described by `note`.
    pub fn run<F>(&self, name: &str, n: u64, hang_s: u64, exhaustive: bool, note: &str, f: F)
    where
        F: Fn(u64, &mut Local) + Sync,
    {
        use rayon::prelude::*;
        let ord = self.next_ord.fetch_add(1, Ordering::SeqCst);
        let t0 = Instant::now();
        CUR_SUB.store(ord, Ordering::SeqCst);
        HANG_LIMIT_S.store(hang_s, Ordering::SeqCst);
        let range: Vec<u64> = match self.one {
            Some((o, i)) if o == ord => {
                if i < n {
                    vec![i]
                } else {
                    vec![]
                }
            }
            Some(_) => vec![],
            None => Vec::new(),
        };
        let run_case = |idx: u64, loc: &mut Local| {
            let slot = thread_slot();
            SLOT_SINCE[slot].store(now_s(), Ordering::Relaxed);
            SLOT_IDX[slot].store(idx + 1, Ordering::Relaxed);
            loc.idx = idx;
            if let Err(msg) = guard(|| f(idx, loc)) {
                // a panic that escaped the case's own guard: the subject (or
                // the harness) panicked outside an expected place.
                loc.violation("panic:escaped", json!({"panic": msg}));
            }
            SLOT_IDX[slot].store(0, Ordering::Relaxed);
        };
        let chunk = (n / 4096).clamp(1, 1 << 16);
        let merged: Local = if self.one.is_some() {
            let mut loc = Local::new(name, ord, 4);
            for idx in range {
                run_case(idx, &mut loc);
            }
            loc
        } else {
            let nchunks = n.div_ceil(chunk);
            (0..nchunks)
                .into_par_iter()
                .fold(
                    || Local::new(name, ord, 2),
                    |mut loc, c| {
                        let lo = c * chunk;
                        let hi = (lo + chunk).min(n);
                        for idx in lo..hi {
                            run_case(idx, &mut loc);
                        }
                        // drain distinct hashes early to bound memory
                        if loc.distinct.len() > 1 << 16 {
                            self.merge_distinct(&mut loc.distinct);
                        }
                        loc
                    },
                )
                .reduce(
                    || Local::new(name, ord, 2),
                    |mut a, mut b| {
                        a.evaluations += b.evaluations;
                        a.digest = a.digest.wrapping_add(b.digest);
                        a.bulk_distinct += b.bulk_distinct;
                        for (k, v) in b.hist {
                            *a.hist.entry(k).or_insert(0) += v;
                        }
                        for (k, v) in b.hist_dyn {
                            *a.hist_dyn.entry(k).or_insert(0) += v;
                        }
                        for (k, v) in b.extra {
                            *a.extra.entry(k).or_insert(0) += v;
                        }
                        a.distinct.append(&mut b.distinct);
                        if a.distinct.len() > 1 << 18 {
                            self.merge_distinct(&mut a.distinct);
                        }
                        if a.samples.len() < 3 {
                            a.samples.append(&mut b.samples);
                        }
                        a.violations.append(&mut b.violations);
                        a
                    },
                )
        };
        let mut merged = merged;
        // Second pass in a permuted case order (cheap sub-runs only): the subject functions are pure, so a case
        // that passes in index order but fails after a different predecessor on its thread reveals state carried
        // across calls (a cache, a static, a reused buffer). Only violations are kept from this pass.
        // Whether the pass runs is decided by the sub-run's declared size and watchdog class (decoder-class sub-runs:
        // always), so that detection does not depend on machine load; other small sub-runs get it when they were quick.
        // Skipped: sub-runs whose cases run in fresh processes (no shared state) and the 66 KB length sweep.
        const NO_SECOND_PASS: [&str; 4] = ["all-lengths", "double-cuts", "program-level-cuts", "sequences-x-file-splits"];
        let decoder_class = hang_s <= 120 && !NO_SECOND_PASS.contains(&name);
        if self.one.is_none() && n >= 2 && n <= 1_000_000 && (decoder_class || t0.elapsed().as_secs_f64() < 1.5) && std::env::var("AGV_NO_REORDER").is_err() {
            let mut a = (n as f64 * 0.618_033_988_7) as u64 | 1;
            fn gcd(mut x: u64, mut y: u64) -> u64 {
                while y != 0 {
                    let t = x % y;
                    x = y;
                    y = t;
                }
                x
            }
            while gcd(a, n) != 1 {
                a += 2;
            }
            let first_keys: HashSet<(String, u64)> = merged.violations.iter().map(|v| (v.key.clone(), v.idx)).collect();
            let first_any: HashSet<String> = merged.violations.iter().map(|v| v.key.clone()).collect();
            let nchunks = n.div_ceil(chunk);
            let second: Vec<Violation> = (0..nchunks)
                .into_par_iter()
                .fold(
                    || Local::new(name, ord, 0),
                    |mut loc, c| {
                        let lo = c * chunk;
                        let hi = (lo + chunk).min(n);
                        for i in lo..hi {
                            let idx = ((i as u128 * a as u128 + 12345) % n as u128) as u64;
                            run_case(idx, &mut loc);
                        }
                        loc.distinct.clear();
                        loc
                    },
                )
                .map(|loc| loc.violations)
                .reduce(Vec::new, |mut x, mut y| {
                    x.append(&mut y);
                    x
                });
            for mut v in second {
                if first_keys.contains(&(v.key.clone(), v.idx)) || first_any.contains(&v.key) {
                    continue; // already reported by the index-order pass
                }
                v.detail = json!({"found_only_in_the_permuted_order_pass": true, "case": v.detail, "note": "this case passed in index order: the result depends on what the thread evaluated before; replay re-runs the whole check"});
                v.key = format!("history:{}", v.key);
                v.ord = 0;
                merged.violations.push(v);
            }
        }
        let before = self.distinct.lock().unwrap().len();
        self.merge_distinct(&mut merged.distinct);
        let after = self.distinct.lock().unwrap().len();
        self.bulk_distinct.fetch_add(merged.bulk_distinct, Ordering::Relaxed);
        let mut hist: BTreeMap<String, u64> = merged.hist.iter().map(|(k, v)| (k.to_string(), *v)).collect();
        for (k, v) in merged.hist_dyn {
            *hist.entry(k).or_insert(0) += v;
        }
        for (k, v) in merged.extra {
            self.add_extra(k, v);
        }
        {
            let mut s = self.samples.lock().unwrap();
            for (i, v) in merged.samples.into_iter().enumerate() {
                if i < 2 {
                    s.push(json!({"sub": name, "case": v}));
                }
            }
        }
        self.violations.lock().unwrap().append(&mut merged.violations);
        self.subs.lock().unwrap().push(SubStats {
            name: name.into(),
            ord,
            cases: n,
            evaluations: merged.evaluations,
            nontrivial: (after - before) as u64 + merged.bulk_distinct,
            exhaustive,
            note: note.into(),
            hist,
            wall_s: t0.elapsed().as_secs_f64(),
            digest: merged.digest,
        });
        CUR_SUB.store(0, Ordering::SeqCst);
        if self.one.is_none() {
            eprintln!(
                "  [{}] {:<34} cases={:<10} evals={:<10} {:.1}s",
                self.prop,
                name,
                n,
                merged.evaluations,
                t0.elapsed().as_secs_f64()
            );
        }
    }

    fn merge_distinct(&self, v: &mut Vec<u64>) {
        let mut set = self.distinct.lock().unwrap();
        if set.len() >= DISTINCT_CAP {
            self.distinct_capped.store(true, Ordering::Relaxed);
            v.clear();
            return;
        }
        for h in v.drain(..) {
            set.insert(h);
        }
    }

    /// Finish: classify violations against known findings, write evidence and
    /// replay files, print the verdict lines. Returns the process exit code.
    pub fn finish(&self) -> i32 {
        let known = load_known_findings(&self.prop);
        let violations = self.violations.lock().unwrap().clone();
        let mut real = Vec::new();
        let mut known_hit: BTreeMap<String, (String, u64)> = BTreeMap::new();
        for v in violations {
            if let Some(k) = known.iter().find(|k| k.status == "finding" && k.key == v.key) {
                let e = known_hit.entry(k.key.clone()).or_insert((k.what.clone(), 0));
                e.1 += 1;
            } else {
                real.push(v);
            }
        }
        let subs = self.subs.lock().unwrap();
        // differential oracle between two builds of the same enumeration
        let mut other_build: Option<Value> = None;
        if let (Ok(path), None) = (std::env::var("AGV_MERGE"), self.one) {
            match std::fs::read_to_string(&path).ok().and_then(|s| serde_json::from_str::<Value>(&s).ok()) {
                None => {
                    eprintln!("agv: MACHINERY FAILURE: cannot read other build's evidence {path}");
                    return 2;
                }
                Some(o) => {
                    let empty = vec![];
                    let osubs = o["coverage"]["sub_runs"].as_array().unwrap_or(&empty);
                    for s in subs.iter() {
                        let od = osubs.iter().find(|x| x["name"] == s.name.as_str());
                        let same = od.map(|x| x["outcome_digest"] == format!("{:016x}", s.digest)).unwrap_or(false);
                        if !same {
                            real.push(Violation {
                                key: format!("build-disagreement:{}", s.name),
                                sub: s.name.clone(),
                                ord: s.ord,
                                idx: 0,
                                detail: json!({"what": "checked and fast builds give different per-case outcomes in this sub-run", "this_build": s.hist, "other_build": od.map(|x| x["outcomes"].clone())}),
                            });
                        }
                    }
                    other_build = Some(json!({"build": o["coverage"]["build"], "evaluations": o["coverage"]["evaluations"],
                        "distinct_nontrivial": o["coverage"]["distinct_nontrivial"], "violations": o["violations"], "wall_s": o["wall_s"],
                        "sub_runs": osubs.iter().map(|x| json!({"name": x["name"], "outcomes": x["outcomes"], "outcome_digest": x["outcome_digest"]})).collect::<Vec<_>>()}));
                }
            }
        }
        let evaluations: u64 = subs.iter().map(|s| s.evaluations).sum();
        let distinct = self.distinct.lock().unwrap().len() as u64 + self.bulk_distinct.load(Ordering::Relaxed);
        let all_exh = !subs.is_empty() && subs.iter().all(|s| s.exhaustive);
        let mut cov = serde_json::Map::new();
        cov.insert("evaluations".into(), json!(evaluations));
        cov.insert("distinct_nontrivial".into(), json!(distinct));
        cov.insert("rule".into(), json!(*self.rule.lock().unwrap()));
        let mut samples = self.samples.lock().unwrap().clone();
        samples.truncate(24);
        cov.insert("samples".into(), json!(samples));
        cov.insert("exhaustive".into(), json!(all_exh));
        cov.insert(
            "distinct_count_capped".into(),
            json!(self.distinct_capped.load(Ordering::Relaxed)),
        );
        cov.insert(
            "sub_runs".into(),
            json!(subs
                .iter()
                .map(|s| json!({
                    "name": s.name, "ord": s.ord, "cases": s.cases, "evaluations": s.evaluations,
                    "new_distinct_nontrivial": s.nontrivial, "exhaustive_over_stated_space": s.exhaustive,
                    "space": s.note, "outcomes": s.hist, "outcome_digest": format!("{:016x}", s.digest), "wall_s": (s.wall_s*1000.0).round()/1000.0
                }))
                .collect::<Vec<_>>()),
        );
        let extra = self.extra.lock().unwrap();
        if !extra.is_empty() {
            cov.insert("counters".into(), json!(*extra));
        }
        for (k, v) in self.coverage_extra.lock().unwrap().iter() {
            cov.insert(k.clone(), v.clone());
        }
        if let Some(o) = other_build {
            cov.insert("other_build".into(), o);
        }
        cov.insert(
            "known_findings_hit".into(),
            json!(known_hit.iter().map(|(k, (w, n))| json!({"key": k, "what": w, "cases": n})).collect::<Vec<_>>()),
        );
        let ev = json!({
            "property_id": self.prop,
            "tier": self.tier.name(),
            "seed": self.seed,
            "level": self.level,
            "coverage": Value::Object(cov),
            "assumptions": *self.assumptions.lock().unwrap(),
            "wall_s": (self.start.elapsed().as_secs_f64()*1000.0).round()/1000.0,
            "violations": real.len(),
        });
        if self.one.is_none() {
            let path = std::env::var("AGV_EVIDENCE_OUT").unwrap_or_else(|_| format!("{}/evidence/{}.json", verif_dir(), self.prop));
            let _ = std::fs::create_dir_all(format!("{}/evidence", verif_dir()));
            std::fs::write(&path, serde_json::to_string_pretty(&ev).unwrap() + "\n").expect("write evidence");
        }
        for (k, (w, n)) in &known_hit {
            println!("KNOWN-FINDING: property={} {} [key={} cases={}]", self.prop, w, k, n);
        }
        if real.is_empty() {
            if self.one.is_none() {
                println!(
                    "OK property={} tier={} evaluations={} distinct_nontrivial={} wall={:.1}s",
                    self.prop,
                    self.tier.name(),
                    evaluations,
                    distinct,
                    self.start.elapsed().as_secs_f64()
                );
            }
            return 0;
        }
        // group by key, one replay file per key (first case = smallest index)
        let mut by_key: BTreeMap<String, Vec<&Violation>> = BTreeMap::new();
        for v in &real {
            by_key.entry(v.key.clone()).or_default().push(v);
        }
        let _ = std::fs::create_dir_all(format!("{}/replays", verif_dir()));
        for (key, vs) in by_key {
            let v = vs.iter().min_by_key(|v| (v.ord, v.idx)).unwrap();
            let h = hash64(&(key.as_str(), v.ord, v.idx));
            let path = format!("{}/replays/{}-{:08x}.json", verif_dir(), self.prop, h as u32);
            let body = json!({
                "property": self.prop, "tier": self.tier.name(), "seed": self.seed,
                "key": key, "sub": v.sub, "ord": v.ord, "idx": v.idx,
                "cases_with_this_key": vs.len(), "detail": v.detail,
                "replay_cmd": format!("{}/bin/check {} --replay {}", verif_dir(), self.prop, path),
            });
            std::fs::write(&path, serde_json::to_string_pretty(&body).unwrap() + "\n").expect("write replay");
            println!("VIOLATION property={} replay={}", self.prop, path);
            eprintln!("  key={} sub={} idx={} detail={}", key, v.sub, v.idx, v.detail);
        }
        1
    }
}

pub struct KnownFinding {
    pub key: String,
    pub status: String,
    pub what: String,
}

pub fn load_known_findings(prop: &str) -> Vec<KnownFinding> {
    let path = format!("{}/known_findings.json", verif_dir());
    let Ok(s) = std::fs::read_to_string(path) else {
        return vec![];
    };
    let v: Value = serde_json::from_str(&s).expect("known_findings.json must parse");
    v["findings"]
        .as_array()
        .map(|a| {
            a.iter()
                .filter(|e| e["property"] == prop)
                .map(|e| KnownFinding {
                    key: e["key"].as_str().unwrap_or("").into(),
                    status: e["status"].as_str().unwrap_or("").into(),
                    what: e["what"].as_str().unwrap_or("").into(),
                })
                .collect()
        })
        .unwrap_or_default()
}

pub fn hex(b: &[u8]) -> String {
    let mut s = String::with_capacity(b.len() * 2);
    for x in b.iter().take(400) {
        s.push_str(&format!("{x:02x}"));
    }
    if b.len() > 400 {
        s.push_str(&format!("..(+{} bytes)", b.len() - 400));
    }
    s
}

pub fn flush() {
    let _ = std::io::stdout().flush();
}

/// Mixed-radix decode: split `idx` over the given radices (first = fastest).
pub fn unrank(mut idx: u64, radices: &[u64]) -> Vec<u64> {
    let mut out = Vec::with_capacity(radices.len());
    for &r in radices {
        out.push(idx % r);
        idx /= r;
    }
    out
}
pub fn product(radices: &[u64]) -> u64 {
    radices.iter().product()
}
