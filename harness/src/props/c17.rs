//! C17 — deconvolution is non-negative, scale-covariant and equals its plain definition.
use crate::core::*;
use crate::props::c02::panic_site;
use crate::props::event::*;
use crate::refmodel::sim::*;
use crate::Args;
use alpha_g_physics::verif_hooks as vh;
use alpha_g_physics::MainEvent;
use serde_json::json;

/// Plain definition: one sample at a time, no skipping.
fn naive_greedy(signal: &[f64], response: &[f64], offset: usize, look_ahead: usize) -> (f64, Vec<f64>) {
    let window = &response[offset..offset + look_ahead];
    let mut residual = signal.to_vec();
    let mut input = vec![0.0; signal.len()];
    let mut i = 0;
    while i + offset + look_ahead <= residual.len() {
        let rw = &residual[i + offset..i + offset + look_ahead];
        if rw.iter().all(|&x| x < 0.0) {
            let mut val = f64::INFINITY;
            for (s, r) in rw.iter().zip(window) {
                val = val.min(s / r);
            }
            input[i] = val;
            for (s, r) in residual[i..].iter_mut().zip(response) {
                *s -= val * r;
            }
        }
        i += 1;
    }
    (residual.iter().map(|x| x.powi(2)).sum(), input)
}

fn naive_ls(signal: &[f64], response: &[f64], offsets: std::ops::RangeInclusive<usize>, look_aheads: std::ops::RangeInclusive<usize>) -> Vec<f64> {
    let mut best = f64::INFINITY;
    let mut best_input = Vec::new();
    for o in offsets {
        for l in look_aheads.clone() {
            let (r, input) = naive_greedy(signal, response, o, l);
            if r < best {
                best = r;
                best_input = input;
            }
        }
    }
    best_input
}

fn bits(v: &[f64]) -> Vec<u64> {
    v.iter().map(|x| x.to_bits()).collect()
}

/// subsets of at most `k` positions out of `n`, enumerated by index
fn subsets(n: usize, k: usize) -> Vec<Vec<usize>> {
    let mut out = vec![vec![]];
    for a in 0..n {
        out.push(vec![a]);
    }
    if k >= 2 {
        for a in 0..n {
            for b in a + 1..n {
                out.push(vec![a, b]);
            }
        }
    }
    if k >= 3 {
        for a in 0..n {
            for b in a + 1..n {
                for c in b + 1..n {
                    out.push(vec![a, b, c]);
                }
            }
        }
    }
    out
}

fn perturb(sig: &mut [f64], kind: u64, amp: f64) {
    match kind {
        0 => {}
        1 => sig.iter_mut().for_each(|x| *x = x.round()),
        2 => sig.iter_mut().enumerate().for_each(|(i, x)| *x += if i % 2 == 0 { 0.5 } else { -0.5 }),
        3 => sig.iter_mut().enumerate().for_each(|(i, x)| *x += (i % 5) as f64 - 2.0),
        _ => {
            // one sample forced non-negative inside the first pulse region
            if let Some(i) = sig.iter().position(|&x| x < -0.01 * amp) {
                if i + 2 < sig.len() {
                    sig[i + 2] = 0.25;
                }
            }
        }
    }
}

fn waveform(len: usize, positions: &[usize], anchor_end: bool, amp: f64, pert: u64, pad: bool) -> Vec<f64> {
    let mut sig = vec![0.0; len];
    for (j, &p) in positions.iter().enumerate() {
        let pos = if anchor_end { (len + p).checked_sub(24) } else { Some(p) };
        if let Some(pos) = pos {
            if pos < len {
                let a = amp * (1.0 + 0.37 * j as f64);
                if pad { add_pad_pulse(&mut sig, pos, a) } else { add_wire_pulse(&mut sig, pos, a) }
            }
        }
    }
    perturb(&mut sig, pert, amp);
    sig
}

fn check_output(out: &[f64], n_in: usize, what: &serde_json::Value, kind: &str, loc: &mut Local) -> bool {
    if out.len() != n_in {
        loc.violation(format!("deconv:{kind}-output-length"), json!({"case": what, "in": n_in, "out": out.len()}));
        return false;
    }
    if let Some((i, x)) = out.iter().enumerate().find(|(_, x)| !x.is_finite() || **x < 0.0) {
        loc.violation(format!("deconv:{kind}-negative-or-not-finite"), json!({"case": what, "index": i, "value": x}));
        return false;
    }
    true
}

const AMPS: [f64; 4] = [1.0, 3.5, 100.0, 1e4];

pub fn run(args: &Args) -> i32 {
    let rep = super::report(args, "exploration");
    rep.set_rule("pads: each waveform goes through the real pad deconvolution (cfg-guarded entry point) and through the plain one-sample-at-a-time reference on the same response and grid, compared bit for bit; wires: each contiguous block goes through the real wire_range_deconvolution; events: calibrated signals scaled by powers of two; non-trivial = the waveform carries at least one pulse; distinct by hash of the input samples");
    rep.assume("the naive reference uses the library's own re-binned response (read through the hook) so that only the algorithm, not the response table, is compared");
    rep.assume("'zero elsewhere' for the isolated wire pulse means below 1e-6 of the amplitude (the Cholesky solve leaves ~1e-15 residues)");
    let thorough = args.tier == Tier::Thorough;
    let pad_resp = vh::pad_response();
    let wire_resp = vh::wire_response();
    if bits(&pad_resp) != bits(&maps().pad_resp) || bits(&wire_resp) != bits(&maps().wire_resp) {
        rep.violation_global("deconv:response-differs-from-shipped-file", json!({"what": "re-binned response used by the library differs from an independent re-binning (sum of 16 one-ns bins) of the shipped JSON"}));
    }

    // (a) pad deconvolution == naive reference, bit for bit
    let subs = if thorough { subsets(24, 3) } else { subsets(16, 2) };
    let lens: Vec<usize> = if thorough { (1..=60).chain([100, 411, 700]).collect() } else { (1..=60).chain([100, 411]).collect() };
    let ns = subs.len() as u64;
    let nl = lens.len() as u64;
    let radices = [ns, 4, 5, nl, 2];
    rep.run("pad-vs-naive", product(&radices), 120, true, &format!("every set of <= {} pulse positions in a {}-sample window ({} sets) x amplitude {{1,3.5,100,1e4}} x perturbation {{none, integer rounding, +-0.5 alternating, sawtooth, one sample forced >= 0}} x waveform length {{1..=60,100,411{}}} x window anchored at the start / at the end (last look-ahead samples)", if thorough { 3 } else { 2 }, if thorough { 24 } else { 16 }, ns, if thorough { ",700" } else { "" }), |idx, loc| {
        let d = unrank(idx, &radices);
        let sig = waveform(lens[d[3] as usize], &subs[d[0] as usize], d[4] == 1, AMPS[d[1] as usize], d[2], true);
        let h = hash64(&bits(&sig));
        let what = json!({"len": sig.len(), "positions": subs[d[0] as usize], "from_end": d[4] == 1, "amplitude": AMPS[d[1] as usize], "perturbation": d[2]});
        match guard(|| vh::pad_deconvolution(&sig)) {
            Err(p) => {
                loc.note(h, true, "panic");
                loc.violation(format!("panic:pad-deconvolution:{}", panic_site(&p)), json!({"case": what, "panic": p}));
            }
            Ok(out) => {
                loc.note(h, !subs[d[0] as usize].is_empty(), if out.iter().any(|&x| x > 0.0) { "pulses-found" } else { "nothing-found" });
                if sig.len() >= 3 + 7 && !check_output(&out, sig.len(), &what, "pad", loc) {
                    return;
                }
                let reference = naive_ls(&sig, &pad_resp, 3..=5, 7..=12);
                // for waveforms shorter than the smallest window the library returns an all-zero
                // vector of the input length; so does the reference
                if bits(&out) != bits(&reference) {
                    let i = out.iter().zip(&reference).position(|(a, b)| a.to_bits() != b.to_bits());
                    loc.violation("deconv:pad-differs-from-plain-definition", json!({"case": what, "first_difference_at": i, "real": i.map(|i| out[i]), "reference": i.map(|i| reference[i]), "real_len": out.len(), "reference_len": reference.len()}));
                }
                // (b) exact power-of-two covariance
                for k in [-20i32, -1, 1, 20] {
                    let f = 2f64.powi(k);
                    let scaled: Vec<f64> = sig.iter().map(|x| x * f).collect();
                    match guard(|| vh::pad_deconvolution(&scaled)) {
                        Ok(o2) => {
                            if o2.len() != out.len() || o2.iter().zip(&out).any(|(a, b)| a.to_bits() != (b * f).to_bits()) {
                                loc.violation("deconv:pad-not-scale-covariant", json!({"case": what, "factor_log2": k}));
                            }
                        }
                        Err(p) => loc.violation(format!("panic:pad-deconvolution:{}", panic_site(&p)), json!({"case": what, "factor_log2": k, "panic": p})),
                    }
                }
                if loc.want_sample() {
                    loc.sample(json!({"case": what, "recovered": out.iter().enumerate().filter(|(_, x)| **x > 0.0).map(|(i, x)| json!([i, x])).collect::<Vec<_>>()}));
                }
            }
        }
    });

    // single-wire blocks: non-negative, finite, one output per input, scale covariance
    let subs_w = if thorough { subsets(20, 3) } else { subsets(12, 2) };
    let nsw = subs_w.len() as u64;
    let radices_w = [nsw, 4, 5, nl, 2];
    rep.run("wire-single-channel", product(&radices_w), 120, true, "same waveform family built from the wire response, as a one-wire block at wire 100: output length, finite, non-negative, exact power-of-two covariance", |idx, loc| {
        let d = unrank(idx, &radices_w);
        let sig = waveform(lens[d[3] as usize], &subs_w[d[0] as usize], d[4] == 1, AMPS[d[1] as usize], d[2], false);
        let h = hash64(&(bits(&sig), 1u8));
        let what = json!({"len": sig.len(), "positions": subs_w[d[0] as usize], "from_end": d[4] == 1, "amplitude": AMPS[d[1] as usize], "perturbation": d[2]});
        let run_block = |s: &[f64]| {
            let mut ws: vh::WireSignals = [(); 256].map(|_| None);
            ws[100] = Some(s.to_vec());
            guard(|| vh::wire_range_deconvolution(&ws, (100, 101)))
        };
        match run_block(&sig) {
            Err(p) => {
                loc.note(h, true, "panic");
                loc.violation(format!("panic:wire-deconvolution:{}", panic_site(&p)), json!({"case": what, "panic": p}));
            }
            Ok(out) => {
                loc.note(h, !subs_w[d[0] as usize].is_empty(), "deconvolved");
                if out.len() != 1 || out[0].0 != 100 {
                    loc.violation("deconv:wire-output-channels", json!({"case": what, "channels": out.iter().map(|o| o.0).collect::<Vec<_>>()}));
                    return;
                }
                if sig.len() >= 1 + 3 && !check_output(&out[0].1, sig.len(), &what, "wire", loc) {
                    return;
                }
                for k in [-20i32, 1, 20] {
                    let f = 2f64.powi(k);
                    let scaled: Vec<f64> = sig.iter().map(|x| x * f).collect();
                    if let Ok(o2) = run_block(&scaled) {
                        if o2.len() != 1 || o2[0].1.len() != out[0].1.len() || o2[0].1.iter().zip(&out[0].1).any(|(a, b)| a.to_bits() != (b * f).to_bits()) {
                            loc.violation("deconv:wire-not-scale-covariant", json!({"case": what, "factor_log2": k}));
                        }
                    }
                }
            }
        }
    });

    // (c) wire blocks of every length at every ring position
    let block_lens: Vec<usize> = if thorough { (1..=256).collect() } else { (1..=12).chain([64, 255, 256]).collect() };
    let nbl = block_lens.len() as u64;
    let pos_step = if thorough { 1 } else { 1 };
    rep.run("wire-blocks", nbl * 256 / pos_step * 3 * 2, 600, thorough, "block length (all 1..=256 thorough; {1..=12,64,255,256} quick) x every start wire on the ring x pulse on the {first, middle, last} wire of the block x {all waveforms 40 samples: isolated pulse of amplitude 250 at sample 7 with induced neighbour signals must be recovered; per-wire lengths 36..=40: structural clauses only (channels, output length = longest, finite, non-negative)}", |idx, loc| {
        let d = unrank(idx, &[3, 256 / pos_step, nbl, 2]);
        let ragged = d[3] == 1;
        let n = block_lens[d[2] as usize];
        let start = (d[1] * pos_step) as usize;
        let hit_off = match d[0] {
            0 => 0,
            1 => n / 2,
            _ => n - 1,
        };
        let (amp, k) = (250.0, 7usize);
        let mut ws: vh::WireSignals = [(); 256].map(|_| None);
        for j in 0..n {
            let w = (start + j) % 256;
            ws[w] = Some(vec![0.0; if ragged { 36 + (w % 5) } else { 40 }]);
        }
        let hit_wire = (start + hit_off) % 256;
        for dd in -4i64..=4 {
            // induced neighbours: along the block for a partial block (wires outside carry no data and,
            // where the statement is silent, no induction is assumed across a gap of 1..3 missing
            // wires); around the ring when all 256 wires are present
            let w = if n == 256 {
                Some((hit_wire as i64 + dd).rem_euclid(256) as usize)
            } else {
                let jj = hit_off as i64 + dd;
                if (0..n as i64).contains(&jj) { Some((start + jj as usize) % 256) } else { None }
            };
            if let Some(w) = w {
                if let Some(s) = ws[w].as_mut() {
                    add_wire_pulse(s, k, amp * NEIGHBOR[dd.unsigned_abs() as usize]);
                }
            }
        }
        let range = if n == 256 { (0, 256) } else { (start, (start + n) % 256) };
        let h = hash64(&(start, n, hit_off, ragged));
        let what = json!({"block_start": start, "block_len": n, "hit_wire": hit_wire, "amplitude": amp, "sample": k, "ragged_lengths": ragged});
        // the block must be what contiguous_ranges finds
        match guard(|| vh::contiguous_ranges(&ws)) {
            Ok(r) => {
                let ok = r.len() == 1 && ((n == 256 && r[0] == (0, 256)) || (n < 256 && (r[0] == range || (range.1 == 0 && r[0] == (start, 256)))));
                if !ok {
                    loc.violation("deconv:contiguous-ranges", json!({"case": what, "ranges": r}));
                    return;
                }
                let range = r[0];
                match guard(|| vh::wire_range_deconvolution(&ws, range)) {
                    Err(p) => {
                        loc.note(h, true, "panic");
                        loc.violation(format!("panic:wire-deconvolution:{}", panic_site(&p)), json!({"case": what, "panic": p}));
                    }
                    Ok(out) => {
                        loc.note(h, true, "deconvolved");
                        let want_idx: Vec<usize> = (0..n).map(|j| (range.0 + j) % 256).collect();
                        if out.iter().map(|o| o.0).collect::<Vec<_>>() != want_idx {
                            loc.violation("deconv:wire-output-channels", json!({"case": what, "channels": out.len()}));
                            return;
                        }
                        let maxlen = if ragged { (0..n).map(|j| 36 + ((start + j) % 256) % 5).max().unwrap() } else { 40 };
                        for (w, v) in &out {
                            if !check_output(v, maxlen, &json!({"case": what, "wire": w}), "wire", loc) {
                                return;
                            }
                            if ragged {
                                continue;
                            }
                            for (i, &x) in v.iter().enumerate() {
                                if *w == hit_wire && i == k {
                                    if (x - amp).abs() > 1e-6 * amp {
                                        loc.violation(if n == 256 { "deconv:wire-full-ring-seam" } else { "deconv:wire-isolated-pulse-not-recovered" }, json!({"case": what, "recovered": x}));
                                        return;
                                    }
                                } else if x.abs() > 1e-6 * amp {
                                    loc.violation(if n == 256 { "deconv:wire-full-ring-seam" } else { "deconv:wire-spurious-amplitude" }, json!({"case": what, "wire": w, "sample": i, "value": x}));
                                    return;
                                }
                            }
                        }
                        if loc.want_sample() {
                            loc.sample(json!({"case": what, "recovered_at_hit": out.iter().find(|o| o.0 == hit_wire).map(|o| o.1[k])}));
                        }
                    }
                }
            }
            Err(p) => loc.violation(format!("panic:contiguous-ranges:{}", panic_site(&p)), json!({"case": what, "panic": p})),
        }
    });

    // isolated pulse at every admissible sample position and several amplitudes, on wires around the seam
    rep.run("wire-pulse-positions", 8 * 60 * 4, 120, true, "isolated pulse on wire {0,1,127,128,254,255,8,247} x start sample 0..60 in a 78-sample waveform (>= 18 samples before the end) x amplitude {1,3.5,100,1e4}; neighbours carry the induced signal (9-wire block)", |idx, loc| {
        let d = unrank(idx, &[8, 60, 4]);
        let wire = [0usize, 1, 127, 128, 254, 255, 8, 247][d[0] as usize];
        let k = d[1] as usize;
        let amp = AMPS[d[2] as usize];
        let mut ws: vh::WireSignals = [(); 256].map(|_| None);
        for dd in -4i64..=4 {
            let w = (wire as i64 + dd).rem_euclid(256) as usize;
            let mut s = vec![0.0; 78];
            add_wire_pulse(&mut s, k, amp * NEIGHBOR[dd.unsigned_abs() as usize]);
            ws[w] = Some(s);
        }
        let what = json!({"wire": wire, "sample": k, "amplitude": amp});
        let r = guard(|| {
            let ranges = vh::contiguous_ranges(&ws);
            assert_eq!(ranges.len(), 1, "one block expected");
            vh::wire_range_deconvolution(&ws, ranges[0])
        });
        match r {
            Err(p) => loc.violation(format!("panic:wire-deconvolution:{}", panic_site(&p)), json!({"case": what, "panic": p})),
            Ok(out) => {
                loc.note(hash64(&(wire, k, d[2])), true, "deconvolved");
                for (w, v) in &out {
                    for (i, &x) in v.iter().enumerate() {
                        let want = if *w == wire && i == k { amp } else { 0.0 };
                        if (x - want).abs() > 1e-6 * amp || !x.is_finite() || x < 0.0 {
                            loc.violation("deconv:wire-isolated-pulse-not-recovered", json!({"case": what, "at_wire": w, "at_sample": i, "value": x, "expected": want}));
                            return;
                        }
                    }
                }
            }
        }
    });

    // (b) event level: scaling all calibrated samples by 2^k
    let n_ev = if thorough { 24 } else { 6 };
    rep.run("event-scale-covariance", n_ev * 4, 600, true, "forward-model lattice events (calibrated signals through the constructor hook) x factor 2^k, k in {-20,-1,1,20}: same number of avalanches, identical t / phi / z bits, both amplitudes multiplied exactly", |idx, loc| {
        let li = (idx / 4) * 173 + 11;
        let k = [-20i32, -1, 1, 20][(idx % 4) as usize];
        let f = 2f64.powi(k);
        let spec = lattice_event(li % 4320, 0);
        let m = maps();
        let sig = signals(m, spec.sigma_z, &ionisation(m, &spec));
        let mk = |f: f64| -> Box<MainEvent> {
            let mut w: vh::WireSignals = [(); 256].map(|_| None);
            for (i, s) in &sig.wires {
                w[*i] = Some(s.iter().map(|x| x * f).collect());
            }
            let mut p: Box<vh::PadSignals> = Box::new([(); 32].map(|_| [(); 576].map(|_| None)));
            for ((c, r), s) in &sig.pads {
                p[*c][*r] = Some(s.iter().map(|x| x * f).collect());
            }
            Box::new(MainEvent::verif_from_signals(w, *p, 1))
        };
        let what = json!({"lattice_index": li % 4320, "factor_log2": k});
        let r = guard(|| (mk(1.0).avalanches(), mk(f).avalanches()));
        match r {
            Err(p) => loc.violation(format!("panic:event:{}", panic_site(&p)), json!({"case": what, "panic": p})),
            Ok((a, b)) => {
                loc.note(hash64(&(li, k)), !a.is_empty(), "compared");
                if a.len() != b.len() {
                    loc.violation("deconv:event-not-scale-covariant", json!({"case": what, "avalanches": [a.len(), b.len()]}));
                    return;
                }
                for (x, y) in a.iter().zip(&b) {
                    let (bx, by) = (av_bits(x), av_bits(y));
                    if bx[0] != by[0] || bx[1] != by[1] || bx[2] != by[2] || (x.wire_amplitude * f).to_bits() != by[3] || (x.pad_amplitude * f).to_bits() != by[4] {
                        loc.violation("deconv:event-not-scale-covariant", json!({"case": what, "unscaled": format!("{x:?}"), "scaled": format!("{y:?}")}));
                        return;
                    }
                }
                if loc.want_sample() {
                    loc.sample(json!({"case": what, "avalanches": a.len()}));
                }
            }
        }
    });
    rep.finish()
}
