//! C01 — raw-data decoders are total: Ok or typed Err, never a panic / abort / hang.
//! Run in the checked build (overflow checks on) and the fast build (wrapping);
//! the per-case outcome digests of the two builds are compared by the core.
use crate::core::*;
use crate::props::c02::{adc_packet, check_adc, panic_site, short_packet};
use crate::props::c03::{check_chunk, mk_chunk, payload_bytes};
use crate::props::c05::{check_pwb, mk_pwb};
use crate::props::c06::{base_trg, check_trg};
use crate::props::c07::{element, real_parse};
use crate::refmodel::tables::{A16_BOARDS, PWB_BOARDS};
use crate::refmodel::*;
use crate::Args;
use alpha_g_detector::{alpha16, chronobox, midas, padwing};
use serde_json::json;

fn fifo_total(b: &[u8], loc: &mut Local) {
    let h = hash64(b);
    match real_parse(b) {
        Err(p) => {
            loc.note(h, b.len() >= 4, "panic");
            loc.violation(format!("panic:fifo:{}", panic_site(&p)), json!({"input": hex(b), "len": b.len(), "panic": p}));
        }
        Ok((entries, consumed)) => {
            loc.note(h, b.len() >= 4, if consumed == b.len() { "all-consumed" } else { "partial" });
            let rest = consumed as i64 - 4 * entries.len() as i64;
            if consumed > b.len() || rest < 0 || rest % SCALER_BLOCK_BYTES as i64 != 0 {
                loc.violation("fifo:progress-equation", json!({"input": hex(b), "len": b.len(), "entries": entries.len(), "consumed": consumed}));
            }
        }
    }
}

fn all_byte_decoders(b: &[u8], loc: &mut Local) {
    check_adc(b, loc, false);
    check_chunk(b, loc, false);
    check_pwb(b, loc, false);
    check_trg_total(b, loc);
    fifo_total(b, loc);
}

fn check_trg_total(b: &[u8], loc: &mut Local) {
    // check_trg is strict; for C01 only panics matter, so filter its findings
    let before = loc.violations.len();
    check_trg(b, loc);
    let mut i = before;
    while i < loc.violations.len() {
        if loc.violations[i].key.starts_with("panic:") {
            i += 1;
        } else {
            loc.violations.remove(i);
        }
    }
}

/// Every string parser of the detector crate. Returns a bit mask of which accepted.
pub fn all_name_parsers(s: &str, loc: &mut Local) -> u32 {
    let r = guard(|| {
        let mut m = 0u32;
        let mut bit = |ok: bool, k: u32| {
            if ok {
                m |= 1 << k
            }
        };
        bit(midas::MainEventBankName::try_from(s).is_ok(), 0);
        bit(midas::Alpha16BankName::try_from(s).is_ok(), 1);
        bit(midas::Adc16BankName::try_from(s).is_ok(), 2);
        bit(midas::Adc32BankName::try_from(s).is_ok(), 3);
        bit(midas::PadwingBankName::try_from(s).is_ok(), 4);
        bit(midas::TriggerBankName::try_from(s).is_ok(), 5);
        bit(midas::Trb3BankName::try_from(s).is_ok(), 6);
        bit(midas::McVertexBankName::try_from(s).is_ok(), 7);
        bit(midas::ChronoboxBankName::try_from(s).is_ok(), 8);
        bit(midas::Seq2BankName::try_from(s).is_ok(), 9);
        bit(alpha16::BoardId::try_from(s).is_ok(), 10);
        bit(padwing::BoardId::try_from(s).is_ok(), 11);
        bit(chronobox::BoardId::try_from(s).is_ok(), 12);
        // error Display paths
        if let Err(e) = midas::MainEventBankName::try_from(s) {
            let _ = e.to_string();
        }
        if let Err(e) = midas::ChronoboxBankName::try_from(s) {
            let _ = e.to_string();
        }
        m
    });
    match r {
        Ok(m) => m,
        Err(p) => {
            loc.violation(format!("panic:name:{}", panic_site(&p)), json!({"string": s, "bytes": hex(s.as_bytes()), "panic": p}));
            u32::MAX
        }
    }
}

pub const CLASS_ALPHABET: [&str; 24] = ["0", "1", "9", "A", "B", "C", "F", "G", "P", "V", "W", "Z", "a", "c", "_", "\0", "\u{7f}", " ", "é", "€", "😀", "T", "M", "/"];

pub fn class_string(mut idx: u64, len: usize) -> String {
    let mut s = String::new();
    for _ in 0..len {
        s.push_str(CLASS_ALPHABET[(idx % 24) as usize]);
        idx /= 24;
    }
    s
}

pub fn run(args: &Args) -> i32 {
    let rep = super::report(args, "exploration");
    rep.set_rule("every case hands one byte string / string / integer to one or all decoders inside catch_unwind (abort and hang are caught by the supervisor process and a per-case watchdog); after every Ok all accessors and Display are called; non-trivial = the input gets past the decoder's first length/type test (per decoder: ADC >=16 bytes with type 1 version 3, chunk >=28 and multiple of 4, PWB >=56 with version 2, TRG exactly 80 bytes, FIFO >=4 bytes; names: 4 bytes long); distinct by 64-bit hash of the input");
    rep.assume("contents of long inputs come from a small filler alphabet plus <=2 deviations; complete enumeration of all byte strings only up to length 2 (3 in the thorough tier)");
    rep.cov("build", json!(if cfg!(debug_assertions) { "checked (overflow-checks, debug-assertions)" } else { "fast (release, wrapping arithmetic)" }));
    let thorough = args.tier == Tier::Thorough;

    // 1. small scope: every byte string of length 0..=2 (3)
    let small = if thorough { 1 + 256 + 65536 + 16_777_216u64 } else { 1 + 256 + 65536 };
    rep.run("all-short-strings", small, 30, true, if thorough { "every byte string of length 0,1,2,3 into all five byte decoders" } else { "every byte string of length 0,1,2 into all five byte decoders" }, |idx, loc| {
        let b: Vec<u8> = if idx == 0 {
            vec![]
        } else if idx < 257 {
            vec![(idx - 1) as u8]
        } else if idx < 257 + 65536 {
            let x = idx - 257;
            vec![x as u8, (x >> 8) as u8]
        } else {
            let x = idx - 257 - 65536;
            vec![x as u8, (x >> 8) as u8, (x >> 16) as u8]
        };
        all_byte_decoders(&b, loc);
    });

    // 2. every length 0..=66560 x fillers
    let adc_long = adc_packet(700, 1, 702, 0, false, false, 0, 0);
    let pwb_big = ref_pwb_encode(&mk_pwb(4, 1, 511, &(1..=79).collect::<Vec<u16>>(), 0, 1));
    let trg = ref_trg_encode(&base_trg(0));
    let step = if thorough { 1 } else { 1 };
    rep.run("all-lengths", 66561 / step * 8, 60, true, "every length 0..=66560 x {zeros, 0xFF, 0x80 words, scaler headers, ADC header + filler with footer re-derived, chunk with that total length (valid CRCs), PWB payload padded/truncated, TRG/fifo mix}", |idx, loc| {
        let len = (idx / 8 * step) as usize;
        let b: Vec<u8> = match idx % 8 {
            0 => vec![0; len],
            1 => vec![0xFF; len],
            2 => (0..len).map(|i| if i % 4 == 3 { 0x80 } else { i as u8 }).collect(),
            3 => (0..len).map(|i| [0x3C, 0x00, 0x00, 0xFE][i % 4]).collect(),
            4 => {
                // ADC: correct header, `len` decides the sample count; footer consistent when possible
                if len >= 36 && (len - 36) % 2 == 0 && (len - 36) / 2 <= 65533 {
                    let n = (len - 36) / 2;
                    adc_packet(n, 1, (n + 2) as u16, 0, false, false, 0, 0)
                } else {
                    let mut v = adc_long.clone();
                    v.resize(len, 0);
                    v
                }
            }
            5 => {
                // chunk of that total length if it is a legal one
                if len >= 28 && len % 4 == 0 && len - 24 <= 65535 + 3 {
                    let pl = (len - 24).min(65535);
                    let mut v = mk_chunk(len, 1, 1, 0, payload_bytes(pl, 3));
                    v.resize(len, 0);
                    v
                } else {
                    let mut v = mk_chunk(1, 1, 1, 0, payload_bytes(64, 3));
                    v.resize(len, 0);
                    v
                }
            }
            6 => {
                let mut v = pwb_big.clone();
                v.resize(len, 0xCC);
                v
            }
            _ => {
                let mut v = trg.clone();
                v.resize(len, 0xFF);
                v
            }
        };
        all_byte_decoders(&b, loc);
    });

    // 3. deviation lattice: every single byte at every value, and pairs over a boundary alphabet
    let mut bases: Vec<(&str, Vec<u8>, bool)> = vec![
        ("adc-short", short_packet(0x2000, 0, 699), false),
        ("adc-64", adc_packet(64, 1, 66, 0, false, false, 0, 0), false),
        ("adc-65-suppressed", adc_packet(65, 6, 200, 34, true, true, 0, 0), false),
        ("adc-100-keep", adc_packet(100, 5, 102, 40, true, false, 0, 0), false),
        ("chunk-1", mk_chunk(5, 2, 1, 3, payload_bytes(1, 5)), true),
        ("chunk-8", mk_chunk(6, 3, 0, 0, payload_bytes(8, 5)), true),
        ("pwb-0ch", ref_pwb_encode(&mk_pwb(12, 2, 511, &[], 0, 0)), false),
        ("pwb-1ch-odd", ref_pwb_encode(&mk_pwb(11, 1, 3, &[16], 0b1000, 0)), false),
        ("pwb-2ch-even", ref_pwb_encode(&mk_pwb(13, 3, 2, &[1, 79], 0, 3)), false),
        ("trg", ref_trg_encode(&base_trg(2)), false),
    ];
    let mut fifo = Vec::new();
    for (pos, e) in [0u64, 3, 1, 4, 3, 0].iter().enumerate() {
        fifo.extend(element(*e, pos));
    }
    fifo.truncate(4 * 3 + 40);
    bases.push(("fifo", fifo, false));
    let total: u64 = bases.iter().map(|b| b.1.len() as u64 * 256 * if b.2 { 2 } else { 1 }).sum();
    rep.run("one-byte-deviation", total, 30, true, "11 base shapes x every byte offset x all 256 values (chunks: CRCs stale and re-derived) into all byte decoders", |idx, loc| {
        let mut i = idx;
        for (_, base, crc) in &bases {
            let span = base.len() as u64 * 256 * if *crc { 2 } else { 1 };
            if i < span {
                let mut b = base.clone();
                let fix = i >= base.len() as u64 * 256;
                let j = i % (base.len() as u64 * 256);
                b[(j / 256) as usize] = (j % 256) as u8;
                if fix {
                    chunk_fix_crcs(&mut b);
                }
                all_byte_decoders(&b, loc);
                return;
            }
            i -= span;
        }
    });
    let alpha: &[u8] = if thorough { &[0, 1, 2, 3, 0x3F, 0x40, 0x7F, 0x80, 0xC0, 0xFE, 0xFF] } else { &[0, 1, 0x7F, 0x80, 0xFF] };
    let na = alpha.len() as u64;
    let total2: u64 = bases.iter().map(|b| (b.1.len().min(64) as u64).pow(2) * na * na).sum();
    rep.run("two-byte-deviations", total2, 30, true, "11 base shapes x every pair among the first 60 + last 4 byte offsets x boundary alphabet squared (chunks: CRCs re-derived)", |idx, loc| {
        let mut i = idx;
        for (_, base, crc) in &bases {
            let m = base.len().min(64) as u64;
            let span = m * m * na * na;
            if i < span {
                let d = unrank(i, &[na, na, m, m]);
                if d[2] >= d[3] {
                    return;
                }
                let pos = |k: u64| if base.len() <= 64 || k < 60 { k as usize } else { base.len() - 64 + k as usize };
                let mut b = base.clone();
                b[pos(d[2])] = alpha[d[0] as usize];
                b[pos(d[3])] = alpha[d[1] as usize];
                if *crc {
                    chunk_fix_crcs(&mut b);
                }
                all_byte_decoders(&b, loc);
                return;
            }
            i -= span;
        }
    });

    // 4. 16-bit field sweeps that feed arithmetic
    rep.run("adc-requested-x-count", 65536 * 4 * 2, 30, true, "all 65536 requested_samples x sample count {64,65,66,697} x suppression {off,on}", |idx, loc| {
        let d = unrank(idx, &[65536, 4, 2]);
        let n = [64usize, 65, 66, 697][d[1] as usize];
        let b = if d[2] == 0 { adc_packet(n, 1, d[0] as u16, 0, false, false, 0, 0) } else { adc_packet(n, 1, d[0] as u16, 34, true, true, 0, 0) };
        check_adc(&b, loc, false);
    });
    rep.run("adc-footer-x-requested", 65536 * 6, 30, true, "all 65536 footer words x requested_samples {0,1,2,66,67,65535} (64 samples)", |idx, loc| {
        let d = unrank(idx, &[65536, 6]);
        let f = d[0] as u16;
        let b = adc_packet(64, 1, [0u16, 1, 2, 66, 67, 65535][d[1] as usize], f & 0xFFF, f & 0x1000 != 0, f & 0x2000 != 0, 0, f & 0xC000);
        check_adc(&b, loc, false);
    });
    // sample contents that drive the baseline arithmetic to its extremes, with right and wrong footer baselines
    // (the error paths build values from the computed mean) and every suppression / keep combination
    rep.run("adc-sample-extremes", 4 * 8 * 4 * 4, 30, true, "sample count {64, 65, 100, 697} x 8 sample contents (zeros, ramp, all i16::MIN, all i16::MAX, floor remainders, alternating extremes) x footer baseline {correct, +1, -1, negated} x {suppression, keep_bit}", |idx, loc| {
        let d = unrank(idx, &[4, 8, 4, 4]);
        let n = [64usize, 65, 100, 697][d[0] as usize];
        let (kb, su) = (d[3] & 1 == 1, d[3] & 2 == 2);
        let b = adc_packet(n, d[1], (n + 2) as u16, if kb { 34 } else { 0 }, kb, su, d[2] as i64, 0);
        check_adc(&b, loc, false);
    });
    rep.run("chunk-length-field", 65536 * 3, 30, true, "all 65536 declared chunk lengths x total size {28, 32, 1048} with CRCs re-derived", |idx, loc| {
        let d = unrank(idx, &[65536, 3]);
        let mut b = mk_chunk(2, 0, 1, 0, payload_bytes([1usize, 6, 1024][d[1] as usize], 1));
        b[14..16].copy_from_slice(&(d[0] as u16).to_le_bytes());
        chunk_fix_crcs(&mut b);
        check_chunk(&b, loc, false);
    });
    rep.run("pwb-u16-fields", 65536 * 5, 30, true, "all 65536 values of PWB requested_samples, last_sca_cell, first block index, first block size, mask word 4", |idx, loc| {
        let d = unrank(idx, &[65536, 5]);
        let mut b = ref_pwb_encode(&mk_pwb(11, 1, 3, &[4, 16, 79], 0b1000, 0));
        let o = [22usize, 20, 52, 54, 32][d[1] as usize];
        b[o..o + 2].copy_from_slice(&(d[0] as u16).to_le_bytes());
        check_pwb(&b, loc, false);
    });

    // 5. reassembly from chunk lists with adversarial headers
    let ids = [0u16, 1, 2, 65535];
    let sizes = [1usize, 2, 56];
    let per = (ids.len() * 2 * sizes.len() * 2 * 2) as u64; // id x flags x size x chip x board
    rep.run("chunk-lists", 1 + per + per * per + if thorough { per * per * per } else { 0 }, 30, true, "every list of 0..=2 (3 thorough) chunks over {chunk id 0,1,2,65535} x flags x payload size {1,2,56} x 2 chips x 2 boards into PwbPacket::try_from(Vec<Chunk>)", |idx, loc| {
        let mut list = Vec::new();
        let mut x = idx;
        let n = if x == 0 {
            0
        } else if x <= per {
            x -= 1;
            1
        } else if x <= per + per * per {
            x -= 1 + per;
            2
        } else {
            x -= 1 + per + per * per;
            3
        };
        let payload = ref_pwb_encode(&mk_pwb(1, 1, 0, &[], 0, 0));
        for _ in 0..n {
            let d = unrank(x % per, &[4, 2, 3, 2, 2]);
            x /= per;
            let pl = payload[..sizes[d[2] as usize]].to_vec();
            list.push(mk_chunk(10 + d[4] as usize, d[3] as u8, d[1] as u8, ids[d[0] as usize], pl));
        }
        let h = hash64(&list);
        let r = guard(|| {
            let chunks: Vec<padwing::Chunk> = list.iter().map(|b| padwing::Chunk::try_from(&b[..]).unwrap()).collect();
            let c2 = chunks.clone();
            let a = padwing::PwbV2Packet::try_from(chunks).map_err(|e| e.to_string()).is_ok();
            let b = padwing::PwbPacket::try_from(c2).map_err(|e| e.to_string()).is_ok();
            (a, b)
        });
        match r {
            Ok((a, _)) => loc.note(h, n >= 1, if a { "accept" } else { "reject" }),
            Err(p) => {
                loc.note(h, true, "panic");
                loc.violation(format!("panic:reassembly:{}", panic_site(&p)), json!({"chunks": list.iter().map(|c| hex(c)).collect::<Vec<_>>(), "panic": p}));
            }
        }
    });

    // 6. strings
    let maxlen = if thorough { 5 } else { 4 };
    let mut total = 0u64;
    let mut offs = vec![];
    for l in 0..=maxlen {
        offs.push(total);
        total += 24u64.pow(l);
    }
    rep.run("class-strings", total, 30, true, &format!("every string of 0..={maxlen} symbols over a 24-symbol class alphabet (digits, upper/lower case, NUL, DEL, space, 2-, 3- and 4-byte UTF-8 characters) into all 13 string parsers"), |idx, loc| {
        let l = offs.iter().rposition(|&o| o <= idx).unwrap();
        let s = class_string(idx - offs[l], l);
        let m = all_name_parsers(&s, loc);
        loc.note(hash64(s.as_bytes()), s.len() == 4, if m == 0 { "all-reject" } else { "some-accept" });
        if loc.want_sample() {
            loc.sample(json!({"string": s, "bytes": hex(s.as_bytes())}));
        }
    });
    // non-ASCII characters of every case class and width (a predicate like `is_uppercase()` is Unicode-aware; byte
    // indexing is not): every string of 0..=4 symbols over a 16-symbol alphabet
    const UNI: [&str; 16] = ["B", "C", "P", "A", "0", "1", "9", "É", "Ω", "Ⓐ", "é", "١", "Ⅷ", "ǅ", "𝐀", "ß"];
    rep.run("unicode-case-strings", 1 + 16 + 256 + 4096 + 65536, 30, true, "every string of 0..=4 symbols over {B, C, P, A, 0, 1, 9, É, Ω, Ⓐ (3 bytes), é, ١ (Arabic digit), Ⅷ (Roman numeral), ǅ (title case), 𝐀 (4 bytes), ß} into all 13 string parsers", |idx, loc| {
        let mut x = idx;
        let mut l = 0usize;
        let mut block = 1u64;
        while x >= block {
            x -= block;
            block *= 16;
            l += 1;
        }
        let mut s = String::new();
        for _ in 0..l {
            s.push_str(UNI[(x % 16) as usize]);
            x /= 16;
        }
        let m = all_name_parsers(&s, loc);
        loc.note(hash64(&(s.as_bytes(), "uni")), s.len() == 4, if m == 0 { "all-reject" } else { "some-accept" });
    });
    if thorough {
        rep.run("ascii-4", 128 * 128 * 128, 60, true, "all 128^4 four-byte ASCII strings into all 13 string parsers (one case = 128 strings)", |idx, loc| {
            let mut nt = 0;
            for c in 0..128u8 {
                let bytes = [(idx & 127) as u8, (idx >> 7 & 127) as u8, (idx >> 14 & 127) as u8, c];
                let s = std::str::from_utf8(&bytes).unwrap();
                if all_name_parsers(s, loc) != 0 {
                    nt += 1;
                }
            }
            loc.bulk(128, 128, "parsed");
            loc.count("ascii4_accepted_by_some_parser", nt);
        });
    }

    // 7. integer / char / MAC conversions
    rep.run("ids-u8-u16", 65536, 30, true, "all u16 (and thereby all u8) into every id type", |idx, loc| {
        let v = idx as u16;
        let r = guard(|| {
            let mut acc = 0u32;
            if v < 256 {
                let b = v as u8;
                acc += alpha16::Adc16ChannelId::try_from(b).is_ok() as u32;
                acc += alpha16::Adc32ChannelId::try_from(b).is_ok() as u32;
                acc += alpha16::ModuleId::try_from(b).is_ok() as u32;
                acc += padwing::AfterId::try_from(b).is_ok() as u32;
                acc += padwing::Compression::try_from(b).is_ok() as u32;
                acc += padwing::Trigger::try_from(b).is_ok() as u32;
                acc += chronobox::ChannelId::try_from(b).is_ok() as u32;
            }
            acc += padwing::ResetChannelId::try_from(v).is_ok() as u32;
            acc += padwing::FpnChannelId::try_from(v).is_ok() as u32;
            acc += padwing::PadChannelId::try_from(v).is_ok() as u32;
            acc += padwing::ChannelId::try_from(v).is_ok() as u32;
            acc += midas::EventId::try_from(v).is_ok() as u32;
            let u = v as usize;
            acc += alpha16::aw_map::TpcWirePosition::try_from(u).is_ok() as u32;
            acc += padwing::map::TpcPadColumn::try_from(u).is_ok() as u32;
            acc += padwing::map::TpcPadRow::try_from(u).is_ok() as u32;
            acc += padwing::map::TpcPwbColumn::try_from(u).is_ok() as u32;
            acc += padwing::map::TpcPwbRow::try_from(u).is_ok() as u32;
            acc += padwing::map::PwbPadColumn::try_from(u).is_ok() as u32;
            acc += padwing::map::PwbPadRow::try_from(u).is_ok() as u32;
            acc
        });
        match r {
            Ok(a) => loc.note(idx, true, if a > 0 { "some-accept" } else { "all-reject" }),
            Err(p) => loc.violation(format!("panic:id:{}", panic_site(&p)), json!({"value": v, "panic": p})),
        }
    });
    rep.run("usize-and-char", 1_114_112 / 256 + 1, 30, true, "all Unicode scalar values into AfterId::try_from(char); usize boundary values into the position types", |idx, loc| {
        let r = guard(|| {
            let mut n = 0u64;
            for c in idx * 256..(idx + 1) * 256 {
                if let Some(ch) = char::from_u32(c as u32) {
                    n += 1;
                    let _ = padwing::AfterId::try_from(ch).is_ok();
                }
            }
            for u in [usize::MAX, usize::MAX - 1, 1 << 32, (1 << 32) - 1, 1 << 31, 65536, 576, 575, 256, 255, 72, 71, 32, 31, 8, 7, 4, 3] {
                let u = u.wrapping_add(idx as usize);
                let _ = alpha16::aw_map::TpcWirePosition::try_from(u).is_ok();
                let _ = padwing::map::TpcPadColumn::try_from(u).is_ok();
                let _ = padwing::map::TpcPadRow::try_from(u).is_ok();
                let _ = padwing::map::PwbPadRow::try_from(u).is_ok();
            }
            n
        });
        match r {
            Ok(n) => loc.bulk(n, n, "converted"),
            Err(p) => loc.violation(format!("panic:id:{}", panic_site(&p)), json!({"block": idx, "panic": p})),
        }
    });
    let n_dev = if thorough { 1u64 << 32 } else { 1 << 24 };
    rep.run("pwb-device-id-u32", n_dev >> 12, 60, true, if thorough { "all 2^32 u32 into padwing::BoardId::try_from(u32) (one case = 4096 values)" } else { "for each of 4096 high-bit patterns: 4096 low values into padwing::BoardId::try_from(u32), plus each table id +-1" }, |idx, loc| {
        let r = guard(|| {
            let mut ok = 0u64;
            for lo in 0..4096u64 {
                let v = if thorough { (idx << 12 | lo) as u32 } else { ((idx << 20) | lo * 0x101) as u32 };
                ok += padwing::BoardId::try_from(v).is_ok() as u64;
            }
            ok
        });
        match r {
            Ok(ok) => {
                loc.bulk(4096, 4096, "converted");
                loc.count("device_ids_accepted", ok);
            }
            Err(p) => loc.violation(format!("panic:id:{}", panic_site(&p)), json!({"block": idx, "panic": p})),
        }
    });
    rep.run("macs", (71 + 8) * 6 * 256, 30, true, "every table MAC (Alpha16 and PadWing) x each byte at all 256 values into both BoardId::try_from([u8;6])", |idx, loc| {
        let d = unrank(idx, &[256, 6, 79]);
        let mut mac = if d[2] < 71 { PWB_BOARDS[d[2] as usize].1 } else { A16_BOARDS[d[2] as usize - 71].1 };
        mac[d[1] as usize] = d[0] as u8;
        let r = guard(|| {
            let a = alpha16::BoardId::try_from(mac).map(|b| (b.name().to_string(), b.mac_address()));
            let p = padwing::BoardId::try_from(mac).map(|b| (b.name().to_string(), b.mac_address(), b.device_id()));
            (a.is_ok(), p.is_ok())
        });
        match r {
            Ok((a, p)) => loc.note(hash64(&mac), true, if a || p { "known" } else { "unknown" }),
            Err(pm) => loc.violation(format!("panic:id:{}", panic_site(&pm)), json!({"mac": mac, "panic": pm})),
        }
    });

    // 8. suppression_baseline
    rep.run("pwb-suppression-baseline", 201 * 4 * 3, 30, true, "waveform length 0..=200 x content {zeros, i16::MIN, i16::MAX, alternating} x run number {0, 5000, u32::MAX}", |idx, loc| {
        let d = unrank(idx, &[201, 4, 3]);
        let w: Vec<i16> = (0..d[0]).map(|i| match d[1] {
            0 => 0,
            1 => i16::MIN,
            2 => i16::MAX,
            _ => if i % 2 == 0 { i16::MIN } else { i16::MAX },
        }).collect();
        let run = [0u32, 5000, u32::MAX][d[2] as usize];
        match guard(|| padwing::suppression_baseline(run, &w).map_err(|e| e.to_string())) {
            Ok(r) => loc.note(hash64(&(w, run)), d[0] >= 68, if r.is_ok() { "ok" } else { "err" }),
            Err(p) => loc.violation(format!("panic:suppression-baseline:{}", panic_site(&p)), json!({"len": d[0], "content": d[1], "panic": p})),
        }
    });

    rep.finish()
}
