//! C09 — every main event yields a result: assembling and reconstructing never crashes.
use crate::core::*;
use crate::props::c01::class_string;
use crate::props::c02::{panic_site, short_packet};
use crate::props::event::*;
use crate::refmodel::sim::*;
use crate::refmodel::*;
use crate::Args;
use serde_json::json;

/// Structured event: deviations edit this and everything is re-encoded with valid
/// CRCs, baselines and length fields, so that the deviation reaches deep code.
#[derive(Clone)]
pub struct EvS {
    pub ts: u32,
    pub wires: Vec<(&'static str, u8, Vec<i16>)>,
    /// (board, chip, requested, channels (readout, waveform))
    pub pads: Vec<(&'static str, u8, u16, Vec<(u16, Vec<i16>)>)>,
    pub chunk_size: usize,
}

impl EvS {
    pub fn from_signals(sig: &Signals, ts: u32) -> EvS {
        let m = maps();
        let wires = sig.wires.iter().map(|(w, s)| (m.wire[*w].0, m.wire[*w].1, digitise_wire(s))).collect();
        let mut groups: std::collections::BTreeMap<(&'static str, u8), Vec<(u16, Vec<i16>)>> = Default::default();
        for (p, s) in &sig.pads {
            let (b, chip, ch) = m.pad[p];
            groups.entry((b, chip)).or_default().push((readout_index(ch), digitise_pad(s)));
        }
        EvS { ts, wires, pads: groups.into_iter().map(|((b, c), mut ch)| { ch.sort_by_key(|x| x.0); (b, c, PAD_N as u16, ch) }).collect(), chunk_size: 8192 }
    }
    pub fn encode(&self) -> Banks {
        let mut out: Banks = vec![("ATAT".into(), trg_packet(self.ts))];
        for (b, ch, wf) in &self.wires {
            out.push((wire_bank_name(b, *ch), wire_packet(b, *ch, wf)));
        }
        for (b, chip, req, chans) in &self.pads {
            let chans: Vec<(u16, Vec<i16>)> = chans.iter().map(|(ro, w)| {
                let mut w = w.clone();
                w.resize(*req as usize, PAD_BASELINE);
                (*ro, w)
            }).collect();
            out.extend(pwb_banks(b, *chip, &pwb_payload(b, *chip, *req, &chans), self.chunk_size));
        }
        out
    }
}

fn hits_event(hits: &[Hit], sigma: f64, ts: u32) -> EvS {
    EvS::from_signals(&signals(maps(), sigma, hits), ts)
}

pub fn base_events(thorough: bool) -> Vec<(&'static str, EvS)> {
    let m = maps();
    let mut v = Vec::new();
    for li in if thorough { vec![7u64, 1234, 2999] } else { vec![7u64] } {
        let spec = lattice_event(li, 0);
        v.push(("forward-model lattice event", EvS::from_signals(&signals(m, spec.sigma_z, &ionisation(m, &spec)), 100)));
    }
    v.push(("one pad column, three avalanches", hits_event(&[Hit { wire: 20, bin: 30, z: 0.1013, amp: 120.0 }, Hit { wire: 22, bin: 30, z: 0.35, amp: 90.0 }, Hit { wire: 21, bin: 60, z: -0.2, amp: 150.0 }], 0.004, 1)));
    v.push(("a single wire and a single pad", {
        let mut e = hits_event(&[Hit { wire: 100, bin: 10, z: 0.5, amp: 100.0 }], 0.004, 2);
        e.wires.truncate(1);
        e.pads.truncate(1);
        e.pads[0].3.truncate(1);
        e
    }));
    // avalanches at and around the last tabulated drift time of their z slice (bins 247 = 3.952 us for the outermost
    // slice ... 268 = 4.288 us for the central ones)
    let late: Vec<Hit> = (0..24).map(|i| Hit { wire: 40 + (i % 6), bin: 244 + i, z: if i % 2 == 0 { 0.1013 + 0.01 * i as f64 } else { 1.13 }, amp: 100.0 + i as f64 }).collect();
    v.push(("avalanches at the last tabulated drift times", hits_event(&late, 0.004, 5)));
    // full ring: all 256 wires with data
    let mut sig = signals(m, 0.004, &[Hit { wire: 255, bin: 20, z: 0.1, amp: 100.0 }, Hit { wire: 0, bin: 20, z: 0.3, amp: 100.0 }, Hit { wire: 128, bin: 50, z: -0.4, amp: 130.0 }]);
    for w in 0..256 {
        sig.wires.entry(w).or_insert_with(|| vec![0.0; WIRE_N - DELAY]);
    }
    v.push(("full ring of 256 wires", EvS::from_signals(&sig, 3)));
    // a track-like line of avalanches in z at fixed azimuth (many pads of one column)
    let line: Vec<Hit> = (0..40).map(|i| Hit { wire: 60 + (i % 3), bin: 10 + 2 * i, z: -0.3 + 0.015 * i as f64, amp: 80.0 + i as f64 }).collect();
    v.push(("forty avalanches along z in one column", hits_event(&line, 0.0045, 4)));
    v
}

type Dev = (String, Box<dyn Fn(&mut EvS) + Sync + Send>);

fn deviations(e: &EvS, thorough: bool) -> Vec<Dev> {
    let mut d: Vec<Dev> = Vec::new();
    let nw = e.wires.len().min(if thorough { 4 } else { 2 });
    let np = e.pads.len().min(if thorough { 3 } else { 2 });
    for t in 0..nw {
        for (pi, pos) in [0usize, 63, 64, 99, 100, 101, 696].into_iter().enumerate() {
            for val in [i16::MIN, i16::MAX, 32764] {
                d.push((format!("wire {t}: sample {pos} := {val}"), Box::new(move |e: &mut EvS| {
                    let n = e.wires[t].2.len();
                    e.wires[t].2[pos.min(n - 1)] = val;
                })));
            }
            let _ = pi;
        }
        for (name, f) in [("i16::MIN", 0u8), ("i16::MAX", 1), ("alternating extremes", 2), ("ramp through the whole range", 3), ("baseline only", 4)] {
            d.push((format!("wire {t}: all samples := {name}"), Box::new(move |e: &mut EvS| {
                for (i, s) in e.wires[t].2.iter_mut().enumerate() {
                    *s = match f {
                        0 => i16::MIN,
                        1 => i16::MAX,
                        2 => if i % 2 == 0 { i16::MIN } else { i16::MAX },
                        3 => (i as i32 * 94 - 32768).clamp(-32768, 32767) as i16,
                        _ => WIRE_BASELINE,
                    };
                }
            })));
        }
        // (a 65533-sample wire makes the whole contiguous block that long: ~70 s for the full ring, so
        // the longest lengths are applied to every event only in the thorough tier)
        let lens: &[usize] = if thorough || e.wires.len() <= 20 { &[64, 65, 99, 100, 101, 102, 164, 4000, 65533] } else { &[64, 65, 99, 100, 101, 102, 164] };
        for &len in lens {
            d.push((format!("wire {t}: waveform length := {len}"), Box::new(move |e: &mut EvS| e.wires[t].2.resize(len, WIRE_BASELINE - 40))));
        }
    }
    // all wires extreme at once
    for (name, val) in [("i16::MIN", i16::MIN), ("i16::MAX", i16::MAX)] {
        d.push((format!("all wires: all samples := {name}"), Box::new(move |e: &mut EvS| e.wires.iter_mut().for_each(|w| w.2.iter_mut().for_each(|s| *s = val)))));
    }
    for t in 0..np {
        for pos in [0usize, 99, 100, 101, 509] {
            for val in [i16::MIN, i16::MAX, -2048, 2047] {
                d.push((format!("pad message {t}: channel 0 sample {pos} := {val}"), Box::new(move |e: &mut EvS| {
                    let w = &mut e.pads[t].3[0].1;
                    let n = w.len();
                    w[pos.min(n - 1)] = val;
                })));
            }
        }
        for (name, f) in [("i16::MIN", 0u8), ("i16::MAX", 1), ("alternating extremes", 2), ("-2048", 3), ("identical clipped pulse on every channel", 4)] {
            d.push((format!("pad message {t}: all samples of all channels := {name}"), Box::new(move |e: &mut EvS| {
                for (_, w) in e.pads[t].3.iter_mut() {
                    for (i, s) in w.iter_mut().enumerate() {
                        *s = match f {
                            0 => i16::MIN,
                            1 => i16::MAX,
                            2 => if i % 2 == 0 { i16::MIN } else { i16::MAX },
                            3 => -2048,
                            _ => if (130..160).contains(&i) { -2048 } else { PAD_BASELINE },
                        };
                    }
                }
            })));
        }
        for req in [0u16, 1, 2, 99, 100, 101, 102, 511] {
            d.push((format!("pad message {t}: requested_samples := {req}"), Box::new(move |e: &mut EvS| e.pads[t].2 = req)));
        }
        d.push((format!("pad message {t}: all 79 channels sent, identical waveforms"), Box::new(move |e: &mut EvS| {
            let w = e.pads[t].3[0].1.clone();
            e.pads[t].3 = (1..=79u16).map(|ro| (ro, w.clone())).collect();
        })));
        d.push((format!("pad message {t}: all 79 channels sent, identical clipped pulse"), Box::new(move |e: &mut EvS| {
            let w: Vec<i16> = (0..PAD_N).map(|i| if (130..150).contains(&i) { -2048 } else { PAD_BASELINE }).collect();
            e.pads[t].3 = (1..=79u16).map(|ro| (ro, w.clone())).collect();
        })));
        for cs in [1usize, 7, 600, 65535] {
            d.push((format!("pad message {t} etc.: chunk size := {cs}"), Box::new(move |e: &mut EvS| e.chunk_size = cs)));
        }
    }
    for ts in [0u32, u32::MAX] {
        d.push((format!("TRG timestamp := {ts}"), Box::new(move |e: &mut EvS| e.ts = ts)));
    }
    d
}

fn evaluate(run: u32, banks: &Banks, what: serde_json::Value, loc: &mut Local) {
    let t0 = std::time::Instant::now();
    evaluate_inner(run, banks, what.clone(), loc);
    if std::env::var("AGV_DEBUG").is_ok() && t0.elapsed().as_secs_f64() > 1.0 {
        eprintln!("SLOW {:.1}s {}", t0.elapsed().as_secs_f64(), what);
    }
}

fn evaluate_inner(run: u32, banks: &Banks, what: serde_json::Value, loc: &mut Local) {
    let h = hash64(&(run, banks));
    match build(run, banks) {
        Err(p) => {
            loc.note(h, true, "panic");
            loc.violation(format!("panic:event-build:{}", panic_site(&p)), json!({"case": what, "panic": p}));
        }
        Ok(Err(_)) => loc.note(h, false, "typed-error"),
        Ok(Ok(ev)) => match fingerprint(&ev, true) {
            Err(p) => {
                loc.note(h, true, "panic");
                loc.violation(format!("panic:event-reconstruction:{}", panic_site(&p)), json!({"case": what, "panic": p}));
            }
            Ok(fp) => {
                loc.note(h, true, if fp.vertex.is_some() { "vertex" } else if fp.avalanches.is_empty() { "no-avalanches" } else { "avalanches" });
                if loc.want_sample() {
                    loc.sample(json!({"case": what, "banks": banks.len(), "avalanches": fp.avalanches.len(), "vertex": fp.vertex.is_some()}));
                }
            }
        },
    }
}

pub fn run(args: &Args) -> i32 {
    let rep = super::report(args, "exploration");
    rep.set_rule("every case = one bank list handed to MainEvent::try_from_banks; on Ok, timestamp(), avalanches() and vertex() are called, all inside catch_unwind (abort / hang: supervisor + 300 s watchdog); simulated events are edited as structures and re-encoded, so that CRCs, baselines and length fields stay valid and the deviation reaches the reconstruction; non-trivial = the event was built (reached the reconstruction) or panicked; distinct by hash of the bank list");
    rep.assume("run in the overflow-checked build; extreme values come from the stated alphabet (i16::MIN/MAX, +-2048, requested_samples 0/1/2/99..102/511, 79 channels, waveform lengths around the delay), at most 1 (quick) or 2 (thorough) simultaneous deviations per event");
    rep.cov("build", json!(if cfg!(debug_assertions) { "checked (overflow-checks, debug-assertions)" } else { "fast" }));
    let thorough = args.tier == Tier::Thorough;
    let bases = base_events(thorough);

    // 1. structured deviations, d <= 1
    let mut plan: Vec<(usize, Option<usize>, Option<usize>)> = Vec::new();
    let devs: Vec<Vec<Dev>> = bases.iter().map(|(_, e)| deviations(e, thorough)).collect();
    for (bi, ds) in devs.iter().enumerate() {
        plan.push((bi, None, None));
        for di in 0..ds.len() {
            plan.push((bi, Some(di), None));
        }
    }
    if thorough {
        // d = 2 on the two small events: every pair of deviations
        for (bi, (name, _)) in bases.iter().enumerate() {
            if name.starts_with("one pad column") || name.starts_with("a single wire") {
                let n = devs[bi].len();
                for a in 0..n {
                    for b in a + 1..n {
                        if (a * 31 + b) % 3 == 0 {
                            plan.push((bi, Some(a), Some(b)));
                        }
                    }
                }
            }
        }
    }
    rep.run("structured-deviations", plan.len() as u64, 300, false, "base events (lattice events, one column, single wire + single pad, full ring, forty avalanches along z) x every deviation of the alphabet (extreme samples at positions around the baseline window / delay / end, all samples extreme, waveform lengths 64..65533, pad requested_samples 0..511, 79 identical channels, clipped plateaus, chunk sizes 1..65535, TRG extremes); thorough adds a third of all pairs on the two small events", |k, loc| {
        let (bi, d1, d2) = plan[k as usize];
        let mut e = bases[bi].1.clone();
        let mut names = vec![];
        for d in [d1, d2].into_iter().flatten() {
            (devs[bi][d].1)(&mut e);
            names.push(devs[bi][d].0.clone());
        }
        evaluate(SIM_RUN, &e.encode(), json!({"base": bases[bi].0, "deviations": names}), loc);
    });

    // 2. bank-level deviations on a small event: duplicate / drop / rename / junk at every position
    let small = bases.iter().find(|b| b.0.starts_with("one pad column")).unwrap().1.encode();
    let nb = small.len() as u64;
    let junk_names: Vec<String> = (0..24u64 * 24).map(|i| class_string(i, 2)).map(|s| format!("C0{s}")).chain(["".to_string(), "ATAT".into(), "PC12".into(), "C090".into(), "B090".into(), "TRBA".into(), "MCVX".into(), "XXXX".into(), "PC".into(), "ATATAT".into()]).collect();
    let junk_payloads: Vec<Vec<u8>> = vec![vec![], vec![0], vec![0; 16], vec![0xFF; 16], trg_packet(5), short_packet(0x2000, 0, 699), wire_packet("09", 0, &wire_samples(0, 64, 2)), small.iter().find(|b| b.0.starts_with("PC")).unwrap().1.clone(), vec![1, 3, 0, 0, 0, 128, 0, 66]];
    let nj = (junk_names.len() * junk_payloads.len()) as u64;
    rep.run("bank-level-deviations", nb * (3 + nj / 4) , 300, false, "small event: each bank duplicated / dropped / given the name of its neighbour; each bank replaced by (junk name x junk payload) over 586 class-alphabet and documented names x 9 payloads {empty, 1 byte, zeros, 0xFF, valid TRG, data-less ADC, ADC of i16::MAX, a valid chunk, truncated ADC} (a quarter of the product per position)", |k, loc| {
        let per = 3 + nj / 4;
        let (i, op) = ((k / per) as usize, k % per);
        let mut b = small.clone();
        let what;
        match op {
            0 => {
                let c = b[i].clone();
                b.push(c);
                what = json!({"duplicate_bank": i});
            }
            1 => {
                b.remove(i);
                what = json!({"drop_bank": i});
            }
            2 => {
                let n = b[(i + 1) % b.len()].0.clone();
                b[i].0 = n;
                what = json!({"rename_bank": i, "to_name_of_neighbour": true});
            }
            j => {
                let j = ((j - 3) * 4 + (i as u64 % 4)) as usize % (nj as usize);
                let (ni, pi) = (j % junk_names.len(), j / junk_names.len());
                b[i] = (junk_names[ni].clone(), junk_payloads[pi].clone());
                what = json!({"replace_bank": i, "name": junk_names[ni], "payload": hex(&junk_payloads[pi])});
            }
        }
        evaluate(SIM_RUN, &b, what, loc);
    });

    // 2b. counters, masks, sizes and reserved fields inside otherwise valid banks: every header/footer byte of the
    //     TRG bank, of a wire bank and of a single-chunk pad bank at every value (chunk CRCs re-derived so that the
    //     deviation reaches the packet decoder), plus every single bit of the TRG bank
    {
        let tiny = bases.iter().find(|b| b.0.starts_with("a single wire")).unwrap().1.encode();
        let ti = tiny.iter().position(|b| b.0 == "ATAT").unwrap();
        let wi = tiny.iter().position(|b| b.0.starts_with('C')).unwrap();
        let pi = tiny.iter().position(|b| b.0.starts_with("PC")).unwrap();
        let (wl, pl) = (tiny[wi].1.len(), tiny[pi].1.len());
        // (bank index, byte offset)
        let mut sites: Vec<(usize, usize)> = (0..80).map(|o| (ti, o)).collect();
        sites.extend((0..40.min(wl)).chain(wl.saturating_sub(8)..wl).map(|o| (wi, o)));
        sites.extend((0..72.min(pl)).chain(pl.saturating_sub(12)..pl).map(|o| (pi, o)));
        let ns = sites.len() as u64;
        rep.cov("byte_sweep_sites", json!({"trg": 80, "wire": sites.iter().filter(|s| s.0 == wi).count(), "pad_chunk": sites.iter().filter(|s| s.0 == pi).count()}));
        rep.run("bank-byte-sweeps", ns * 256 + 640, 300, true, "single wire + single pad event: every byte of the TRG bank, the first 40 and last 8 bytes of the wire bank, the first 72 and last 12 bytes of the single-chunk pad bank (chunk header, packet header, masks; CRCs re-derived) x all 256 values; every single bit of the TRG bank flipped", |k, loc| {
            let mut b = tiny.clone();
            let what;
            if k < ns * 256 {
                let (bi, off) = sites[(k / 256) as usize];
                b[bi].1[off] = (k % 256) as u8;
                if bi == pi {
                    chunk_fix_crcs(&mut b[bi].1);
                }
                what = json!({"bank": b[bi].0, "offset": off, "value": k % 256});
            } else {
                let bit = (k - ns * 256) as usize;
                b[ti].1[bit / 8] ^= 1 << (bit % 8);
                what = json!({"bank": "ATAT", "flipped_bit": bit});
            }
            evaluate(SIM_RUN, &b, what, loc);
        });
    }

    // 2b'. how a pad message is cut into chunks: every chunk size 1..=120 and the layout whose last chunk takes the
    //      remainder on top of a full chunk (last chunk longer than the others: legal, only non-final chunks must agree)
    {
        let tiny = bases.iter().find(|b| b.0.starts_with("a single wire")).unwrap().1.clone();
        let (board, chip, req, chans) = tiny.pads[0].clone();
        let chans: Vec<(u16, Vec<i16>)> = chans.iter().map(|(ro, w)| { let mut w = w.clone(); w.resize(req as usize, PAD_BASELINE); (*ro, w) }).collect();
        let payload = pwb_payload(board, chip, req, &chans);
        let l = payload.len();
        let mut wire_banks: Banks = tiny.encode();
        wire_banks.retain(|b| !b.0.starts_with("PC"));
        let sizes: Vec<usize> = (1..=120).chain([l / 2, l / 2 + 1, l - 1, l]).collect();
        rep.run("chunk-layouts", sizes.len() as u64 * 2, 300, true, "the pad message of the single wire + single pad event cut into chunks of every size 1..=120 (and about half / all of it) x {last chunk shorter, last chunk longer}", |k, loc| {
            let s = sizes[(k / 2) as usize];
            let long_last = k % 2 == 1;
            let n = if long_last { l / s } else { l.div_ceil(s) };
            if n == 0 || (long_last && (n < 2 || l % s == 0)) {
                return;
            }
            let mut banks = wire_banks.clone();
            let mut off = 0;
            for i in 0..n {
                let len = if i + 1 == n { l - off } else { s };
                banks.push((format!("PC{board}"), ref_chunk_encode(&RefChunk { device_id: pwb_board(board).2, packet_sequence: 0, channel_sequence: 0, chip, flags: (i + 1 == n) as u8, chunk_id: i as u16, payload: payload[off..off + len].to_vec() })));
                off += len;
            }
            evaluate(SIM_RUN, &banks, json!({"chunk_size": s, "chunks": n, "last_chunk_longer": long_last}), loc);
        });
    }

    // 2c. which wires carry data: blocks at and around the 255/0 seam and the pad-column boundaries, alone and together
    {
        let blocks: Vec<Vec<usize>> = vec![vec![0], vec![255], vec![0, 255], vec![254, 255], vec![0, 1], vec![255, 0, 1], vec![253, 254, 255, 0], vec![7, 8], vec![100, 101], vec![128], vec![1], vec![254], (248..=255).collect(), (0..=7).collect(), (250..=255).chain(0..=5).collect()];
        let nb = blocks.len() as u64;
        rep.run("wire-occupancy-patterns", nb * nb, 300, true, "every ordered pair (incl. twice the same) of 15 wire blocks {0}, {255}, {0,255}, {254,255}, {0,1}, {255,0,1}, {253..0}, {7,8}, {100,101}, {128}, {1}, {254}, {248..255}, {0..7}, {250..5}: the union carries pulses (and the pads facing the first wire a cluster)", |k, loc| {
            let (a, b) = (&blocks[(k / nb) as usize], &blocks[(k % nb) as usize]);
            let mut sig = Signals::default();
            for (i, &w) in a.iter().chain(b.iter()).enumerate() {
                let s = sig.wires.entry(w).or_insert_with(|| vec![0.0; 120]);
                add_wire_pulse(s, 20 + (i % 3) * 5, 100.0 + i as f64);
            }
            let col = wire_column(a[0]);
            for (i, amp) in [40.0, 100.0, 55.0].iter().enumerate() {
                let mut s = vec![0.0; 120];
                add_pad_pulse(&mut s, 20, *amp);
                sig.pads.insert((col, 200 + i), s);
            }
            evaluate(SIM_RUN, &EvS::from_signals(&sig, 8).encode(), json!({"wires_with_data": a.iter().chain(b.iter()).collect::<Vec<_>>()}), loc);
        });
    }

    // 2d. "... so the vertex program can always emit a row for every event serial number": the real alpha-g-vertices on
    //     files whose main events are, in every order of three kinds, {reconstructable, rejected by the event builder,
    //     built but without a vertex}; other event types in between
    {
        use crate::refmodel::midas::*;
        let good = bases.iter().find(|b| b.0.starts_with("one pad column")).unwrap().1.encode();
        let mut rejected = good.clone();
        rejected.retain(|b| b.0 != "ATAT");
        let mut junk = good.clone();
        junk.push(("XXXX".into(), vec![1, 2, 3, 4]));
        let tiny = bases.iter().find(|b| b.0.starts_with("a single wire")).unwrap().1.encode();
        let kinds: [&Banks; 4] = [&good, &rejected, &junk, &tiny];
        rep.run("vertex-program-rows", 4 * 4 * 4 * 4, 300, true, "alpha-g-vertices on a file of 4 main events, each one of {reconstructable, no TRG bank, unknown bank, single wire + single pad}, all 256 sequences, a sequencer event in between: exit 0 and exactly one row per main event with its serial number, in order", |k, loc| {
            let d = unrank(k, &[4, 4, 4, 4]);
            let mut evs: Vec<MEvent> = Vec::new();
            for (i, &x) in d.iter().enumerate() {
                evs.push(MEvent { id: 1, serial: 100 + 7 * i as u32, timestamp: 1_700_000_000 + i as u32, fmt: BankFmt::B32, banks: kinds[x as usize].clone() });
                if i == 1 {
                    evs.push(MEvent { id: 8, serial: 5, timestamp: 1_700_000_001, fmt: BankFmt::B32, banks: vec![("SEQ2".into(), vec![0; 8])] });
                }
            }
            let dir = Scratch::new(&format!("c09v{k}"));
            let f = dir.write("run.mid", &encode_file(SIM_RUN, 5000, 5001, &evs));
            let out = run_binary("alpha-g-vertices", &dir.0, &[f], None);
            loc.note(hash64(&(k, "vprog")), true, if out.status == Some(0) { "exit-0" } else { "failed" });
            let what = json!({"main_event_kinds": d, "exit": out.status, "stderr": out.stderr.lines().last().unwrap_or("")});
            if out.status != Some(0) || out.stderr.contains("panicked at") {
                loc.violation("vertex-program:did-not-finish", what);
                return;
            }
            let rows = out.csv.as_deref().map(csv_rows).unwrap_or_default();
            let serials: Vec<String> = rows.iter().skip(1).map(|r| r[0].clone()).collect();
            let want: Vec<String> = (0..4).map(|i| (100 + 7 * i).to_string()).collect();
            if serials != want {
                loc.violation("vertex-program:row-missing-or-out-of-order", json!({"case": what, "serial_numbers_in_csv": serials, "expected": want}));
            }
        });
    }

    // 3. other run numbers (maps / calibrations present or absent)
    let runs = [0u32, 2941, 4418, 7026, 9277, 10418, 11084, 11200, 20000, u32::MAX - 1];
    let real = hits_event(&[Hit { wire: 20, bin: 30, z: 0.1013, amp: 120.0 }, Hit { wire: 22, bin: 30, z: 0.35, amp: 90.0 }], 0.004, 9);
    rep.run("run-numbers", runs.len() as u64 * 3, 300, true, "small event under 10 run numbers x {as simulated, all samples i16::MIN, all samples i16::MAX}", |k, loc| {
        let run = runs[(k / 3) as usize];
        let mut e = real.clone();
        let v = [None, Some(i16::MIN), Some(i16::MAX)][(k % 3) as usize];
        if let Some(v) = v {
            e.wires.iter_mut().for_each(|w| w.2.iter_mut().for_each(|s| *s = v));
            e.pads.iter_mut().for_each(|p| p.3.iter_mut().for_each(|c| c.1.iter_mut().for_each(|s| *s = v)));
        }
        evaluate(run, &e.encode(), json!({"run": run, "all_samples": v}), loc);
    });

    // 4. calibrated-signal level plateaus and ties (through the real bank path): identical waveforms on adjacent pads
    rep.run("pad-plateaus", 6 * 4, 300, true, "a wire avalanche plus k = 2..=7 adjacent pad rows carrying bit-identical pulse waveforms, flanked / not flanked by smaller ones", |k, loc| {
        let width = 2 + (k % 6) as usize;
        let flank = k / 6;
        let m = maps();
        let mut sig = signals(m, 0.004, &[Hit { wire: 20, bin: 30, z: 0.1013, amp: 120.0 }]);
        sig.pads.clear();
        let col = wire_column(20);
        let amps: Vec<f64> = match flank {
            0 => std::iter::repeat(100.0).take(width).collect(),
            1 => std::iter::once(40.0).chain(std::iter::repeat(100.0).take(width)).chain(std::iter::once(55.0)).collect(),
            2 => std::iter::once(100.0).chain(std::iter::repeat(100.0).take(width)).chain(std::iter::once(20.0)).collect(),
            _ => std::iter::repeat(3000.0).take(width + 2).collect(), // clipped at -2048
        };
        for (i, a) in amps.iter().enumerate() {
            let mut s = vec![0.0; PAD_N - DELAY];
            add_pad_pulse(&mut s, 30, *a);
            sig.pads.insert((col, 300 + i), s);
        }
        evaluate(SIM_RUN, &EvS::from_signals(&sig, 6).encode(), json!({"plateau_width": width, "pad_amplitudes": amps}), loc);
    });
    rep.finish()
}
