use crate::core::*;
use crate::Args;

pub mod c02;
pub mod c06;

pub fn dispatch(args: &Args) -> i32 {
    match args.prop.as_str() {
        "C02" => c02::run(args),
        "C06" => c06::run(args),
        p => {
            eprintln!("agv: no check for property {p}");
            2
        }
    }
}

pub fn report(args: &Args, level: &'static str) -> Report {
    Report::new(&args.prop, args.tier, args.seed, level, args.one)
}
