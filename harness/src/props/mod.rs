use crate::core::*;
use crate::Args;

pub mod c01;
pub mod c02;
pub mod c03;
pub mod c04;
pub mod c05;
pub mod c06;
pub mod c07;
pub mod c08;
pub mod c09;
pub mod c10;
pub mod c11;
pub mod event;
pub mod c12;
pub mod c13;
pub mod c14;
pub mod c15;
pub mod c16;
pub mod recon;
pub mod c17;
pub mod c18;
pub mod c19;
pub mod c20;

pub fn dispatch(args: &Args) -> i32 {
    match args.prop.as_str() {
        "C01" => c01::run(args),
        "C02" => c02::run(args),
        "C03" => c03::run(args),
        "C04" => c04::run(args),
        "C05" => c05::run(args),
        "C06" => c06::run(args),
        "C07" => c07::run(args),
        "C08" => c08::run(args),
        "C09" => c09::run(args),
        "C10" => c10::run(args),
        "C11" => c11::run(args),
        "C12" => c12::run(args),
        "C13" => c13::run(args),
        "C14" => c14::run(args),
        "C15" => c15::run(args),
        "C16" => c16::run(args),
        "C17" => c17::run(args),
        "C18" => c18::run(args),
        "C19" => c19::run(args),
        "C20" => c20::run(args),
        p => {
            eprintln!("agv: no check for property {p}");
            2
        }
    }
}

pub fn report(args: &Args, level: &'static str) -> Report {
    Report::new(&args.prop, args.tier, args.seed, level, args.one)
}
