//! C02 — ADC packet decoding is exact.
use crate::core::*;
use crate::refmodel::tables::A16_BOARDS;
use crate::refmodel::*;
use crate::Args;
use alpha_g_detector::alpha16::{self, AdcPacket, AdcV3Packet, ChannelId};
use serde_json::json;

fn real_to_ref(p: &AdcV3Packet, raw_channel: u8) -> Result<RefAdc, String> {
    // ModuleId / channel ids have no integer getter: compare through the
    // public constructors.
    let module = (0..=255u8)
        .find(|&m| alpha16::ModuleId::try_from(m).map(|x| x == p.module_id()).unwrap_or(false))
        .ok_or("module id not representable")?;
    let channel = match p.channel_id() {
        ChannelId::A16(c) => (0..=255u8)
            .find(|&m| alpha16::Adc16ChannelId::try_from(m).map(|x| x == c).unwrap_or(false))
            .ok_or("a16 channel")?,
        ChannelId::A32(c) => {
            128 + (0..=127u8)
                .find(|&m| alpha16::Adc32ChannelId::try_from(m).map(|x| x == c).unwrap_or(false))
                .ok_or("a32 channel")?
        }
    };
    let _ = raw_channel;
    Ok(RefAdc {
        accepted_trigger: p.accepted_trigger(),
        module,
        channel,
        requested: u16::try_from(p.requested_samples()).map_err(|_| "requested_samples > u16")?,
        event_timestamp: p.event_timestamp(),
        mac: p.board_id().map(|b| b.mac_address()),
        trigger_offset: p.trigger_offset(),
        build_timestamp: p.build_timestamp(),
        waveform: p.waveform().to_vec(),
        baseline: p.suppression_baseline(),
        keep_last: u16::try_from(p.keep_last()).map_err(|_| "keep_last > u16")?,
        keep_bit: p.keep_bit(),
        suppression: p.is_suppression_enabled(),
    })
}

/// Compare the real decoder with R1 on one input. `strict` = report
/// accept/reject and field disagreements (C02); otherwise only panics (C01).
pub fn check_adc(b: &[u8], loc: &mut Local, strict: bool) {
    let h = hash64(b);
    let nontrivial = b.len() >= 16 && b[0] == 1 && b[1] == 3;
    let real = match guard(|| AdcV3Packet::try_from(b)) {
        Ok(r) => r,
        Err(p) => {
            loc.note(h, nontrivial, "panic");
            loc.violation(format!("panic:adc:{}", panic_site(&p)), json!({"input": hex(b), "len": b.len(), "panic": p}));
            return;
        }
    };
    let rf = ref_adc_decode(b);
    loc.note(h, nontrivial, if real.is_ok() { "accept" } else { "reject" });
    // the wrapper enum is an entry point of its own: it must return, and agree on accept / reject, for every input
    match guard(|| AdcPacket::try_from(b).is_ok()) {
        Err(p) => loc.violation(format!("panic:adc-wrapper:{}", panic_site(&p)), json!({"input": hex(b), "len": b.len(), "panic": p})),
        Ok(w) => {
            if strict && w != real.is_ok() {
                loc.violation("adc:wrapper-disagrees", json!({"input": hex(b), "len": b.len(), "wrapper_accepts": w}));
            }
        }
    }
    if let Ok(p) = &real {
        // accessors and Display rely on constructor invariants
        let r = guard(|| {
            let _ = format!("{p}");
            let w = AdcPacket::try_from(b).map_err(|e| e.to_string())?;
            let _ = format!("{w}");
            if w.waveform() != p.waveform() || w.keep_last() != Some(p.keep_last()) || w.suppression_baseline() != Some(p.suppression_baseline())
                || w.requested_samples() != p.requested_samples() || w.keep_bit() != Some(p.keep_bit()) || w.is_suppression_enabled() != Some(p.is_suppression_enabled())
                || w.packet_type() != 1 || w.packet_version() != 3 || !w.is_v3() || w.accepted_trigger() != p.accepted_trigger() || w.event_timestamp() != p.event_timestamp()
                || w.board_id() != p.board_id() || w.trigger_offset() != p.trigger_offset() || w.build_timestamp() != p.build_timestamp() || w.module_id() != p.module_id()
            {
                return Err("AdcPacket wrapper differs from AdcV3Packet".to_string());
            }
            real_to_ref(p, b[5])
        });
        match r {
            Err(pm) => loc.violation(format!("panic:adc-accessor:{}", panic_site(&pm)), json!({"input": hex(b), "panic": pm})),
            Ok(Err(e)) => {
                if strict {
                    loc.violation("adc:accessor-unrepresentable", json!({"input": hex(b), "what": e}))
                }
            }
            Ok(Ok(got)) => {
                if strict {
                    match &rf {
                        None => loc.violation("adc:accepts-malformed", json!({"input": hex(b), "len": b.len(), "decoded": format!("{:?}", AdcSummary::of(&got))})),
                        Some(r) => {
                            if &got != r {
                                loc.violation("adc:accessor-mismatch", json!({"input": hex(b), "real": format!("{:?}", AdcSummary::of(&got)), "reference": format!("{:?}", AdcSummary::of(r))}));
                            } else {
                                let unused = u16::from_be_bytes([b[b.len() - 4], b[b.len() - 3]]) & 0xC000;
                                if ref_adc_encode(&got, unused) != b {
                                    loc.violation("adc:reencode-mismatch", json!({"input": hex(b)}));
                                }
                            }
                        }
                    }
                }
            }
        }
    } else if strict {
        if let Some(r) = &rf {
            loc.violation("adc:rejects-wellformed", json!({"input": hex(b), "len": b.len(), "error": real.as_ref().err().map(|e| e.to_string()), "reference": format!("{:?}", AdcSummary::of(r))}));
        }
    }
    if loc.want_sample() {
        loc.sample(json!({"len": b.len(), "input": hex(&b[..b.len().min(40)]), "accepted_by_reference": rf.is_some()}));
    }
}

/// short printable view (without the waveform)
#[derive(Debug)]
#[allow(dead_code)]
struct AdcSummary {
    trig: u16,
    module: u8,
    channel: u8,
    requested: u16,
    ts: u64,
    mac: Option<[u8; 6]>,
    n: usize,
    baseline: i16,
    keep_last: u16,
    keep_bit: bool,
    suppression: bool,
}
impl AdcSummary {
    fn of(r: &RefAdc) -> Self {
        AdcSummary { trig: r.accepted_trigger, module: r.module, channel: r.channel, requested: r.requested, ts: r.event_timestamp, mac: r.mac, n: r.waveform.len(), baseline: r.baseline, keep_last: r.keep_last, keep_bit: r.keep_bit, suppression: r.suppression }
    }
}

/// `file:line` of a panic message (the structural key of a panic finding)
pub fn panic_site(msg: &str) -> String {
    // "panicked at detector/src/alpha16.rs:839:26:\nattempt to subtract with overflow"
    let first = msg.lines().next().unwrap_or("");
    let site = first.strip_prefix("panicked at ").unwrap_or(first);
    let site = site.trim_end_matches(':');
    let parts: Vec<&str> = site.rsplitn(3, ':').collect();
    let file_line = if parts.len() == 3 { format!("{}:{}", parts[2], parts[1]) } else { site.to_string() };
    file_line.rsplit('/').next().unwrap_or(&file_line).to_string()
}

pub const SAMPLE_KINDS: u64 = 8;
pub fn samples(kind: u64, n: usize) -> Vec<i16> {
    (0..n)
        .map(|i| match kind {
            0 => 0,
            1 => (i as i16).wrapping_mul(3).wrapping_sub(100),
            2 => i16::MIN,
            3 => i16::MAX,
            // sum of first 64 = -1 (remainder < 0 for the floor mean)
            4 => if i == 0 { -1 } else { 0 },
            // sum = -64 (exact negative)
            5 => if i < 64 { -1 } else { 7 },
            // sum = 63 (positive remainder)
            6 => if i < 63 { 1 } else { 0 },
            // alternating extremes, sum = -32 -> floor mean -1
            _ => if i % 2 == 0 { i16::MIN } else { i16::MAX },
        })
        .collect()
}

pub fn adc_packet(n: usize, kind: u64, requested: u16, keep_last: u16, keep_bit: bool, suppression: bool, baseline_dev: i64, unused: u16) -> Vec<u8> {
    let w = samples(kind, n);
    let correct = if n >= 64 { adc_floor_mean64(&w) } else { 0 };
    let baseline = match baseline_dev {
        0 => correct,
        1 => correct + 1,
        2 => correct - 1,
        _ => if correct == 0 { 1 } else { -correct },
    };
    let p = RefAdc {
        accepted_trigger: 0x0102,
        module: 5,
        channel: 128 + 9,
        requested,
        event_timestamp: 0x0A0B_0C0D_0102_0304,
        mac: Some(A16_BOARDS[3].1),
        trigger_offset: Some(-77),
        build_timestamp: Some(0x6001_2345),
        waveform: w,
        baseline: baseline.clamp(i16::MIN as i64, i16::MAX as i64) as i16,
        keep_last,
        keep_bit,
        suppression,
    };
    ref_adc_encode(&p, unused)
}

pub fn short_packet(footer: u16, baseline: i16, requested: u16) -> Vec<u8> {
    let mut v = vec![1, 3, 0, 4, 5, 6];
    v.extend(requested.to_be_bytes());
    v.extend([0, 0, 0, 7]);
    v.extend(footer.to_be_bytes());
    v.extend(baseline.to_be_bytes());
    v
}

const NS: [usize; 12] = [0, 1, 63, 64, 65, 66, 67, 68, 69, 100, 697, 700];

fn kl_alphabet(n: usize) -> [u16; 10] {
    // keep_last = (index + 2) / 2 + 1 for the last index n-1, and neighbours
    let ka = ((n as i64 - 1 + 2) / 2 + 1).max(0) as u16;
    [0, 1, 33, 34, 35, ka.saturating_sub(1), ka, ka + 1, 4094, 4095]
}
fn req_alphabet(n: usize) -> [u16; 9] {
    let n = n as u16;
    [0, 1, 2, 3, n + 1, n + 2, n + 3, 699, 65535]
}

pub fn run(args: &Args) -> i32 {
    let rep = super::report(args, "exploration");
    rep.set_rule("inputs are byte strings built by the reference encoder from field values (plus raw deviations) and handed to AdcV3Packet::try_from / AdcPacket::try_from; non-trivial = at least 16 bytes with type 1 and version 3 (gets past the first length/type tests); distinct by 64-bit hash of the bytes");
    rep.assume("reference decoder R1 implements the rule list of the statement with signed arithmetic; MAC table snapshot taken from the pinned tree");
    rep.cov("build", json!(if cfg!(debug_assertions) { "checked (overflow-checks, debug-assertions)" } else { "fast (release, wrapping arithmetic)" }));
    let thorough = args.tier == Tier::Thorough;

    // 1. decision table of the interacting fields
    let radices = [NS.len() as u64, 2, 2, 10, 9, SAMPLE_KINDS, 4, 2];
    rep.run("decision-table", product(&radices), 20, true,
        "sample count (12) x suppression x keep_bit x keep_last (10, around 0/33/34/k(n)/max) x requested_samples (9, around 0,1,2,3,n+1..n+3,max) x sample content (8 incl. i16 extremes and negative/zero/positive floor remainders) x footer baseline (correct,+1,-1,negated) x unused footer bits",
        |idx, loc| {
            let d = unrank(idx, &radices);
            let n = NS[d[0] as usize];
            let b = adc_packet(n, d[5], req_alphabet(n)[d[4] as usize], kl_alphabet(n)[d[3] as usize], d[2] == 1, d[1] == 1, d[6] as i64, if d[7] == 1 { 0xC000 } else { 0 });
            check_adc(&b, loc, true);
        });

    // 2. the 16-byte suppressed form: all 65536 footer words x baselines x requested
    rep.run("short-form-footer-sweep", 65536 * 3, 20, true, "16-byte form: all 65536 footer words x baseline {0,-1,i16::MIN} (requested 699)", |idx, loc| {
        let b = short_packet((idx % 65536) as u16, [0i16, -1, i16::MIN][(idx / 65536) as usize], 699);
        check_adc(&b, loc, true);
    });

    // 3. length classes 0..=15, 16, 17..=35, odd/even around 36.. with valid-looking content
    rep.run("length-classes", 1500 * 6, 20, true, "every length 0..1500 x {valid 64+-sample packet truncated/extended to that length with footer re-derived for that length, raw truncation, zeros, 0xFF, the data-less form's 12 header bytes + zeros + its 4-byte footer as the last word, the data-less form extended by repeating its footer word}", |idx, loc| {
        let len = (idx / 6) as usize;
        let b: Vec<u8> = match idx % 6 {
            4 => {
                // header of the 16-byte form, zero filler, and a fully-suppressed footer as the last four bytes
                let s = short_packet(0x2000, 0, 699);
                let mut v = s[..12.min(len)].to_vec();
                v.resize(len.saturating_sub(4).max(v.len()), 0);
                if len >= 16 {
                    v.extend(&s[12..16]);
                }
                v.resize(len, 0);
                v
            }
            5 => {
                let s = short_packet(0x2000, -1, 699);
                (0..len).map(|i| if i < 16 { s[i] } else { s[12 + (i % 4)] }).collect()
            }
            0 => {
                // packet with exactly the samples that fit (if any), consistent flags
                if len >= 36 && (len - 36) % 2 == 0 {
                    let n = (len - 36) / 2;
                    adc_packet(n, 1, (n + 2) as u16, 0, false, false, 0, 0)
                } else {
                    let mut v = adc_packet(100, 1, 102, 0, false, false, 0, 0);
                    v.resize(len, 0);
                    v
                }
            }
            1 => {
                let mut v = adc_packet(700, 1, 702, 0, false, false, 0, 0);
                v.truncate(len);
                v
            }
            2 => vec![0; len],
            _ => vec![0xFF; len],
        };
        check_adc(&b, loc, true);
    });

    // 3b. more samples than a 16-bit count can hold (arithmetic done in u16 wraps at 65536)
    let big_n = [65533usize, 65534, 65535, 65536, 65537, 65600, 66233, 66234, 66235, 131072 + 64, 131072 + 697];
    rep.run("oversize-packets", big_n.len() as u64 * 4 * 2, 60, true, "sample count {65533..65537, 65600, 65536+697..699, 131072+64, 131072+697} x requested_samples {699, 66, (n+2) mod 65536, 65535} x suppression {off, on with keep_bit and keep_last 34}", |idx, loc| {
        let d = unrank(idx, &[big_n.len() as u64, 4, 2]);
        let n = big_n[d[0] as usize];
        let req = [699u16, 66, ((n + 2) % 65536) as u16, 65535][d[1] as usize];
        let b = if d[2] == 0 { adc_packet(n, 1, req, 0, false, false, 0, 0) } else { adc_packet(n, 1, req, 34, true, true, 0, 0) };
        check_adc(&b, loc, true);
    });

    // 4. independent header fields: full product (<= 4 simultaneous deviations)
    let types = [1u8, 0, 2, 255];
    let versions = [3u8, 0, 2, 4, 255];
    let modules = [0u8, 5, 7, 8, 255];
    let channels = [0u8, 15, 16, 127, 128, 159, 160, 255];
    let zeros = [0u8, 1, 255];
    let mut macs: Vec<[u8; 6]> = A16_BOARDS.iter().map(|b| b.1).collect();
    for i in 0..6 {
        let mut m = A16_BOARDS[0].1;
        m[i] = m[i].wrapping_add(1);
        macs.push(m);
        let mut m = A16_BOARDS[7].1;
        m[i] = m[i].wrapping_sub(1);
        macs.push(m);
    }
    macs.push([0; 6]);
    macs.push([255; 6]);
    // a PadWing MAC is not an Alpha16 MAC
    macs.push(crate::refmodel::tables::PWB_BOARDS[0].1);
    let radices = [4, 5, 5, 8, 3, 3, macs.len() as u64, 2];
    rep.run("header-fields", product(&radices), 20, true, "type x version x module x channel x byte12 x byte13 x MAC (8 known + 12 one-byte near misses + zeros/ones/PadWing MAC) on {100-sample packet, 16-byte form}", |idx, loc| {
        let d = unrank(idx, &radices);
        let mut b = if d[7] == 0 { adc_packet(100, 1, 102, 0, false, false, 0, 0) } else { short_packet(0x2000, 0, 699) };
        b[0] = types[d[0] as usize];
        b[1] = versions[d[1] as usize];
        b[4] = modules[d[2] as usize];
        b[5] = channels[d[3] as usize];
        if d[7] == 0 {
            b[12] = zeros[d[4] as usize];
            b[13] = zeros[d[5] as usize];
            b[14..20].copy_from_slice(&macs[d[6] as usize]);
        } else if d[4] != 0 || d[5] != 0 || d[6] != 0 {
            return; // the short form has no such fields; skip duplicates
        }
        check_adc(&b, loc, true);
    });

    // 5. dense sweeps of the 16-bit fields
    let ns = [64usize, 65, 697];
    rep.run("requested-sweep", 65536 * 3 * 2, 20, true, "all 65536 values of requested_samples x sample count {64,65,697} x suppression {off, on with keep_bit and consistent keep_last}", |idx, loc| {
        let d = unrank(idx, &[65536, 3, 2]);
        let n = ns[d[1] as usize];
        let b = if d[2] == 0 { adc_packet(n, 1, d[0] as u16, 0, false, false, 0, 0) } else { adc_packet(n, 1, d[0] as u16, 34, true, true, 0, 0) };
        check_adc(&b, loc, true);
    });
    rep.run("footer-sweep", 65536 * 2 * 2, 20, true, "all 65536 footer words x sample count {64,100} x requested {n+2, n+10}", |idx, loc| {
        let d = unrank(idx, &[65536, 2, 2]);
        let n = [64usize, 100][d[1] as usize];
        let f = d[0] as u16;
        let b = adc_packet(n, 1, (n + if d[2] == 0 { 2 } else { 10 }) as u16, f & 0xFFF, f & 0x1000 != 0, f & 0x2000 != 0, 0, f & 0xC000);
        check_adc(&b, loc, true);
    });
    if thorough {
        // the complete product of the two 16-bit words that drive the suppression arithmetic: requested_samples x footer
        // word (keep_last, keep_bit, suppression, unused bits), for a 64- and a 65-sample packet. One case = one value of
        // requested_samples; the 65536 footer words are patched into the same buffer (inputs distinct by construction).
        // Fast path: accept/reject and the arithmetic-carrying accessors; any disagreement goes through check_adc.
        rep.run("requested-x-footer-product", 65536 * 2, 60, true, "all 2^32 pairs (requested_samples, footer word) x sample count {64, 65}: accept/reject and keep_last / keep_bit / suppression / baseline / waveform length against the reference (one case = 65536 footer words)", |idx, loc| {
            let n = 64 + (idx / 65536) as usize;
            let mut b = adc_packet(n, 1, (idx % 65536) as u16, 0, false, false, 0, 0);
            let fpos = b.len() - 4;
            let mut acc = 0u64;
            let mut dig = 0u64;
            for f in 0..=65535u16 {
                b[fpos..fpos + 2].copy_from_slice(&f.to_be_bytes());
                let real = match guard(|| AdcV3Packet::try_from(&b[..]).ok().map(|p| (p.waveform().len(), p.keep_last(), p.keep_bit(), p.is_suppression_enabled(), p.suppression_baseline(), p.requested_samples()))) {
                    Ok(r) => r,
                    Err(_) => {
                        check_adc(&b, loc, true);
                        continue;
                    }
                };
                let rf = ref_adc_decode(&b).map(|r| (r.waveform.len(), r.keep_last as usize, r.keep_bit, r.suppression, r.baseline, r.requested as usize));
                if real != rf {
                    let before = loc.violations_len();
                    check_adc(&b, loc, true);
                    if loc.violations_len() == before {
                        loc.violation("adc:fast-path-disagreement", json!({"input": hex(&b), "real": format!("{real:?}"), "reference": format!("{rf:?}")}));
                    }
                    continue;
                }
                if real.is_some() {
                    acc += 1;
                }
                dig = dig.wrapping_add(hash64(&(f, real.is_some())));
            }
            loc.bulk(acc, acc, "accept");
            loc.bulk(65536 - acc, 65536 - acc, "reject");
            loc.add_digest(dig);
        });
    }
    rep.run("baseline-sweep", 65536 * SAMPLE_KINDS, 20, true, "all 65536 footer baseline values x 8 sample contents (64 samples)", |idx, loc| {
        let d = unrank(idx, &[65536, SAMPLE_KINDS]);
        let mut b = adc_packet(64, d[1], 66, 0, false, false, 0, 0);
        let n = b.len();
        b[n - 2..].copy_from_slice(&(d[0] as u16).to_be_bytes());
        check_adc(&b, loc, true);
    });

    // 6. every byte of accepted packets at all values (single deviation, complete),
    //    thorough: every pair of header bytes over a boundary alphabet
    let bases: Vec<Vec<u8>> = vec![
        adc_packet(64, 1, 66, 0, false, false, 0, 0),
        adc_packet(65, 6, 200, 34, true, true, 0, 0),
        adc_packet(100, 5, 102, 40, true, false, 0, 0),
        short_packet(0x2000, -5, 699),
    ];
    let total: u64 = bases.iter().map(|b| b.len() as u64 * 256).sum();
    rep.run("byte-sweep", total, 20, true, "4 accepted base packets x every byte offset x all 256 values", |idx, loc| {
        let mut i = idx;
        for base in &bases {
            let span = base.len() as u64 * 256;
            if i < span {
                let mut b = base.clone();
                b[(i / 256) as usize] = (i % 256) as u8;
                check_adc(&b, loc, true);
                return;
            }
            i -= span;
        }
    });
    if thorough {
        let alpha = [0u8, 1, 2, 3, 127, 128, 254, 255];
        let hdr = 36u64;
        rep.run("header-byte-pairs", 3 * hdr * hdr * 64, 20, true, "3 base packets x every ordered pair of the first 32 header bytes + 4 footer bytes x 8x8 boundary values", |idx, loc| {
            let d = unrank(idx, &[8, 8, hdr, hdr, 3]);
            if d[2] >= d[3] {
                return;
            }
            let mut b = bases[d[4] as usize].clone();
            let n = b.len();
            let pos = |k: u64| if k < 32 { k as usize } else { n - 4 + (k as usize - 32) };
            b[pos(d[2])] = alpha[d[0] as usize];
            b[pos(d[3])] = alpha[d[1] as usize];
            check_adc(&b, loc, true);
        });
    }

    rep.finish()
}
