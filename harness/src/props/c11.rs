//! C11 — event results do not depend on bank order and are bit-for-bit reproducible.
//! Environment-choice enumeration: order of the bank list x iteration order of the
//! (board, chip) group map (owned through the cfg-guarded hook) x thread / process.
use crate::core::*;
use crate::props::c02::panic_site;
use crate::props::c04::order_of;
use crate::props::event::*;
use crate::refmodel::sim::*;
use crate::Args;
use alpha_g_physics::verif_hooks as vh;
use serde_json::json;
use stateright::{Checker, Model, Property};
use std::sync::atomic::{AtomicU64, Ordering};
use std::sync::Arc;

/// Outcome of one execution: Err(()) for a typed error, Ok(fingerprint hash)
type Outcome = Result<u64, ()>;

fn evaluate(run: u32, banks: &Banks, group_order: Option<u64>) -> Result<(Outcome, usize), String> {
    vh::set_group_order(group_order);
    let r = build(run, banks);
    let groups = vh::last_group_count();
    vh::set_group_order(None);
    match r? {
        Err(_) => Ok((Err(()), groups)),
        Ok(ev) => Ok((Ok(hash64(&fingerprint(&ev, true)?)), groups)),
    }
}

fn factorial(n: usize) -> u64 {
    (1..=n as u64).product()
}

pub struct Ev {
    pub name: &'static str,
    pub run: u32,
    pub banks: Banks,
}

fn pad_msg(board: &str, chunk_chip: u8, payload_chip: u8, requested: u16, ros: &[u16], pattern: u64, csize: usize) -> Banks {
    let chans: Vec<(u16, Vec<i16>)> = ros.iter().map(|&ro| (ro, pad_samples(ro, requested as usize, pattern))).collect();
    pwb_banks(board, chunk_chip, &pwb_payload(board, payload_chip, requested, &chans), csize)
}

/// The event set (small events for exhaustive permutation; larger ones for structured orders).
pub fn events(thorough: bool) -> Vec<Ev> {
    let sim = SIM_RUN;
    let trg = |ts: u32| ("ATAT".to_string(), trg_packet(ts));
    let wire = |b: &str, ch: u8, n: usize, pat: u64| (wire_bank_name(b, ch), wire_packet(b, ch, &wire_samples(ch, n, pat)));
    let mut v = Vec::new();
    // a small well-formed event with real pulses so that avalanches and (maybe) a vertex exist
    let mut sig = Signals::default();
    let m = maps();
    let hits = vec![Hit { wire: 20, bin: 30, z: 0.1, amp: 120.0 }, Hit { wire: 21, bin: 30, z: 0.35, amp: 90.0 }];
    let s = signals(m, 0.004, &hits);
    sig.wires = s.wires.into_iter().filter(|(w, _)| [20usize, 21].contains(w)).collect();
    sig.pads = s.pads;
    v.push(Ev { name: "two avalanches in one column (2 wires, 1-2 pad groups)", run: sim, banks: banks(m, &sig, 11) });
    let mut b: Banks = vec![trg(5), wire("09", 0, 150, 0), wire("10", 5, 150, 1)];
    b.extend(pad_msg("12", 0, 0, 131, &[4, 5, 30], 0, 8192));
    b.extend(pad_msg("12", 1, 1, 131, &[20, 21], 1, 300));
    v.push(Ev { name: "well-formed, 2 wires, 2 pad groups (1 + 2 chunks)", run: sim, banks: b.clone() });
    // misnamed pad bank next to a correctly named bank of the same group
    let mut bad = b.clone();
    let i = bad.iter().rposition(|x| x.0 == "PC12").unwrap();
    bad[i].0 = "PC13".into();
    v.push(Ev { name: "one chunk of a 2-chunk message under another board's bank name", run: sim, banks: bad });
    // duplicate wire: short (empty after delay) and long
    v.push(Ev { name: "two banks for one wire, 64 and 150 samples", run: sim, banks: vec![trg(1), wire("09", 0, 64, 0), wire("09", 0, 150, 0), wire("11", 3, 150, 0)] });
    v.push(Ev { name: "two banks for one wire, 100 and 101 samples", run: sim, banks: vec![trg(1), wire("09", 0, 100, 0), wire("09", 0, 101, 0)] });
    // two full banks with different pulses for one wire, on wires of every 64-wire block of the ring
    for (w, name) in [(5usize, "two full banks with different pulses for wire 5"), (100, "two full banks with different pulses for wire 100"), (170, "two full banks with different pulses for wire 170"), (228, "two full banks with different pulses for wire 228"), (255, "two full banks with different pulses for wire 255")] {
        let (wb, wch) = m.wire[w];
        let mk = |amp: f64| {
            let mut sg = vec![0.0; 60];
            add_wire_pulse(&mut sg, 5, amp);
            (wire_bank_name(wb, wch), wire_packet(wb, wch, &digitise_wire(&sg)))
        };
        // a pad cluster in the wire's column, so that "which bank survives" would show in the avalanche amplitude
        let col = wire_column(w);
        let rows = [300usize, 301, 302];
        let (bd, chip, _) = m.pad[&(col, rows[0])];
        let mut chans: Vec<(u16, Vec<i16>)> = rows.iter().zip([40.0, 100.0, 55.0]).filter(|(r, _)| m.pad[&(col, **r)].0 == bd && m.pad[&(col, **r)].1 == chip).map(|(r, a)| {
            let mut sg = vec![0.0; 40];
            add_pad_pulse(&mut sg, 5, a);
            (readout_index(m.pad[&(col, *r)].2), digitise_pad(&sg))
        }).collect();
        chans.sort_by_key(|c| c.0);
        let req = chans[0].1.len() as u16;
        let mut banks = vec![trg(40 + w as u32), mk(120.0), mk(70.0)];
        banks.extend(pwb_banks(bd, chip, &pwb_payload(bd, chip, req, &chans), 8192));
        v.push(Ev { name, run: sim, banks });
    }
    // the same wire bank name twice: a data-less (16-byte suppressed) packet and a full one; and twice data-less
    // the same with a data-less packet whose module / channel bytes agree with the bank name (channel 128 + 0)
    let dataless = |ch: u8, baseline: i16| -> Vec<u8> {
        let mut v = vec![1u8, 3, 0, 4, 0, 128 + ch];
        v.extend(152u16.to_be_bytes());
        v.extend([0, 0, 0, 7]);
        v.extend(0x2000u16.to_be_bytes());
        v.extend(baseline.to_be_bytes());
        v
    };
    v.push(Ev { name: "one wire bank name twice: consistent data-less packet and full packet", run: sim, banks: vec![trg(2), ("C090".into(), dataless(0, 3000)), wire("09", 0, 150, 0), wire("10", 3, 150, 1)] });
    v.push(Ev { name: "one wire bank name three times: full, consistent data-less twice", run: sim, banks: vec![trg(2), wire("09", 0, 150, 0), ("C090".into(), dataless(0, 3000)), ("C090".into(), dataless(0, -3))] });
    v.push(Ev { name: "one wire bank name twice: data-less packet and full packet", run: sim, banks: vec![trg(2), ("C090".into(), crate::props::c02::short_packet(0x2000, 0, 699)), wire("09", 0, 150, 0), wire("10", 3, 150, 1)] });
    v.push(Ev { name: "one wire bank name three times: full, data-less, data-less", run: sim, banks: vec![trg(2), wire("09", 0, 150, 0), ("C090".into(), crate::props::c02::short_packet(0x2000, 0, 699)), ("C090".into(), crate::props::c02::short_packet(0x2000, -3, 100))] });
    // a PWB message in which one chunk id arrives twice with different (CRC-valid) payloads of the same length
    {
        let chans: Vec<(u16, Vec<i16>)> = [4u16, 5, 30].iter().map(|&ro| (ro, pad_samples(ro, 131, 0))).collect();
        let chans_b: Vec<(u16, Vec<i16>)> = [4u16, 5, 30].iter().map(|&ro| (ro, pad_samples(ro, 131, 1))).collect();
        let a = pwb_banks("12", 0, &pwb_payload("12", 0, 131, &chans), 300);
        let b = pwb_banks("12", 0, &pwb_payload("12", 0, 131, &chans_b), 300);
        for dup in [0usize, 1, a.len() - 1] {
            let mut e: Banks = vec![trg(4), wire("09", 0, 150, 0)];
            e.extend(a.iter().cloned());
            e.push(b[dup].clone());
            if e.len() <= 7 {
                v.push(Ev { name: match dup { 0 => "PWB message with chunk 0 arriving twice with different payloads", 1 => "PWB message with chunk 1 arriving twice with different payloads", _ => "PWB message with the last chunk arriving twice with different payloads" }, run: sim, banks: e });
            }
        }
    }
    // well-formed messages of 4 and 5 chunks (interior chunks can be permuted while the first and the last stay)
    for (csize, name) in [(250usize, "well-formed 4-chunk PWB message"), (180, "well-formed 5-chunk PWB message")] {
        let chans: Vec<(u16, Vec<i16>)> = [4u16, 5, 30].iter().map(|&ro| (ro, pad_samples(ro, 131, 0))).collect();
        let mut e: Banks = vec![trg(12)];
        e.extend(pwb_banks("12", 0, &pwb_payload("12", 0, 131, &chans), csize));
        if e.len() == if csize == 250 { 5 } else { 6 } {
            v.push(Ev { name, run: sim, banks: e });
        }
    }
    // well-formed events whose pad packets have different numbers of samples (a conversion buffer shared between
    // packets is sized by whichever packet the map yields first)
    for (na, nb, name) in [(511usize, 300usize, "well-formed, two pad packets with 511 and 300 samples"), (140, 250, "well-formed, two pad packets with 140 and 250 samples")] {
        let col = wire_column(20);
        let mut e: Banks = vec![trg(61)];
        // the cluster of the longer packet sits beyond the end of the shorter one
        let (bin_a, bin_b) = if na > nb { (na - DELAY - 60, 5) } else { (5, nb - DELAY - 60) };
        let mut wsig = vec![0.0; 460];
        add_wire_pulse(&mut wsig, bin_a, 120.0);
        add_wire_pulse(&mut wsig, bin_b, 90.0);
        let (wb, wch) = m.wire[20];
        e.push((wire_bank_name(wb, wch), wire_packet(wb, wch, &digitise_wire(&wsig))));
        // two clusters in the same column, on pads that belong to different (board, chip) groups
        let mut groups: std::collections::BTreeMap<(&'static str, u8), Vec<(u16, Vec<i16>)>> = Default::default();
        for (rows, bin) in [([100usize, 101, 102], bin_a), ([400, 401, 402], bin_b)] {
            for (r, a) in rows.iter().zip([40.0, 100.0, 55.0]) {
                let (bd, chip, ch) = m.pad[&(col, *r)];
                let n = if rows[0] == 100 { na } else { nb };
                let mut sg = vec![0.0; n - DELAY];
                if bin + 20 < sg.len() {
                    add_pad_pulse(&mut sg, bin, a);
                }
                groups.entry((bd, chip)).or_default().push((readout_index(ch), digitise_pad(&sg)));
            }
        }
        if groups.len() >= 2 {
            for ((bd, chip), mut chans) in groups {
                chans.sort_by_key(|c| c.0);
                let req = chans[0].1.len() as u16;
                e.extend(pwb_banks(bd, chip, &pwb_payload(bd, chip, req, &chans), 65535));
            }
            v.push(Ev { name, run: sim, banks: e });
        }
    }
    // a 4-chunk PWB message in which one chunk carries the id of a neighbour (payload in arrival order would be
    // right under some bank orders and scrambled under others; the id sequence has a hole in every order)
    {
        let chans: Vec<(u16, Vec<i16>)> = [4u16, 5, 30].iter().map(|&ro| (ro, pad_samples(ro, 131, 0))).collect();
        let a = pwb_banks("12", 0, &pwb_payload("12", 0, 131, &chans), 250);
        if a.len() == 4 {
            for (which, id, name) in [
                (2usize, 1u16, "4-chunk PWB message whose chunk 2 carries id 1"),
                (1, 2, "4-chunk PWB message whose chunk 1 carries id 2"),
                (3, 2, "4-chunk PWB message whose last chunk carries id 2"),
                (1, 0, "4-chunk PWB message whose chunk 1 carries id 0"),
            ] {
                let mut e: Banks = vec![trg(6)];
                e.extend(a.iter().cloned());
                e[1 + which].1[12..14].copy_from_slice(&id.to_le_bytes());
                crate::refmodel::chunk_fix_crcs(&mut e[1 + which].1);
                v.push(Ev { name, run: sim, banks: e });
            }
        }
    }
    // a PWB message in which one chunk bank arrives twice as an identical copy
    {
        let chans: Vec<(u16, Vec<i16>)> = [4u16, 5, 30].iter().map(|&ro| (ro, pad_samples(ro, 131, 0))).collect();
        let a = pwb_banks("12", 0, &pwb_payload("12", 0, 131, &chans), 300);
        for dup in [0usize, 1, a.len() - 1] {
            let mut e: Banks = vec![trg(14)];
            e.extend(a.iter().cloned());
            e.push(a[dup].clone());
            if e.len() <= 6 {
                v.push(Ev { name: match dup { 0 => "PWB message with an identical copy of chunk 0", 1 => "PWB message with an identical copy of chunk 1", _ => "PWB message with an identical copy of the last chunk" }, run: sim, banks: e });
            }
        }
    }
    // the same with real pulses: a wire avalanche and a 3-pad cluster whose waveforms differ between the two copies of
    // the duplicated chunk, so that "which copy survives" would change z and the pad amplitude
    {
        let col = wire_column(20);
        let rows = [300usize, 301, 302];
        let (bd, chip, _) = m.pad[&(col, rows[0])];
        if rows.iter().all(|r| m.pad[&(col, *r)].0 == bd && m.pad[&(col, *r)].1 == chip) {
            let mk = |amps: [f64; 3]| -> Vec<(u16, Vec<i16>)> {
                let mut v: Vec<(u16, Vec<i16>)> = rows.iter().zip(amps).map(|(r, a)| {
                    let mut sg = vec![0.0; 40];
                    add_pad_pulse(&mut sg, 5, a);
                    (readout_index(m.pad[&(col, *r)].2), digitise_pad(&sg))
                }).collect();
                v.sort_by_key(|c| c.0);
                v
            };
            let (ca, cb) = (mk([40.0, 100.0, 55.0]), mk([90.0, 100.0, 20.0]));
            let req = ca[0].1.len() as u16;
            let a = pwb_banks(bd, chip, &pwb_payload(bd, chip, req, &ca), 500);
            let b = pwb_banks(bd, chip, &pwb_payload(bd, chip, req, &cb), 500);
            let mut wsig = vec![0.0; 60];
            add_wire_pulse(&mut wsig, 5, 120.0);
            let (wb, wch) = m.wire[20];
            for dup in 0..a.len().min(b.len()) {
                let mut e: Banks = vec![trg(31), (wire_bank_name(wb, wch), wire_packet(wb, wch, &digitise_wire(&wsig)))];
                e.extend(a.iter().cloned());
                e.push(b[dup].clone());
                if e.len() <= 6 {
                    v.push(Ev { name: if dup == 0 { "avalanche + PWB message whose chunk 0 arrives twice with different pulses" } else { "avalanche + PWB message whose chunk 1 arrives twice with different pulses" }, run: sim, banks: e });
                }
            }
        }
    }
    // two pad messages in different chunk groups whose packets claim the same chip (same pads)
    for (na, nb) in [(131u16, 131u16), (100, 131), (131, 100), (100, 100), (3, 131)] {
        let mut e: Banks = vec![trg(9)];
        e.extend(pad_msg("00", 0, 0, na, &[4, 5], 0, 8192));
        e.extend(pad_msg("00", 1, 0, nb, &[4, 5], 1, 8192));
        e.push(wire("09", 0, 150, 0));
        v.push(Ev { name: match (na, nb) { (131, 131) => "two chunk groups carrying the same pads, 131/131 samples", (100, 131) => "two chunk groups carrying the same pads, 100/131 samples", (131, 100) => "two chunk groups carrying the same pads, 131/100 samples", (100, 100) => "two chunk groups carrying the same pads, 100/100 samples", _ => "two chunk groups carrying the same pads, 3/131 samples" }, run: sim, banks: e });
    }
    // the same, with real pulses: which of the two conflicting pad messages survives would change z / amplitudes
    {
        let hit = |amp: f64| vec![Hit { wire: 20, bin: 30, z: 0.1013, amp }];
        let s1 = signals(m, 0.004, &hit(120.0));
        let s2 = signals(m, 0.004, &hit(70.0));
        let mut e: Banks = vec![trg(21)];
        for (w, sg) in s1.wires.iter().filter(|(w, _)| (16..24).contains(*w)) {
            let (bd, ch) = m.wire[*w];
            e.push((wire_bank_name(bd, ch), wire_packet(bd, ch, &digitise_wire(sg))));
        }
        let key0 = *s1.pads.keys().next().unwrap();
        let (bd, chip, _) = m.pad[&key0];
        for (k, sg) in [&s1, &s2].iter().enumerate() {
            let chans: Vec<(u16, Vec<i16>)> = sg.pads.iter().filter(|(p, _)| m.pad[p].0 == bd && m.pad[p].1 == chip).map(|(p, v)| (readout_index(m.pad[p].2), digitise_pad(v))).collect();
            // second copy arrives in the chunk group of another chip, but its packet header names the same chip
            e.extend(pwb_banks(bd, if k == 0 { chip } else { (chip + 1) % 4 }, &pwb_payload(bd, chip, PAD_N as u16, &chans), 8192));
        }
        v.push(Ev { name: "two chunk groups carrying the same pads with different pulses", run: sim, banks: e });
    }
    // three groups claiming the same pads
    let mut e: Banks = vec![trg(9)];
    e.extend(pad_msg("00", 0, 0, 100, &[4], 0, 8192));
    e.extend(pad_msg("00", 1, 0, 131, &[4], 1, 8192));
    e.extend(pad_msg("00", 2, 0, 90, &[4], 2, 8192));
    v.push(Ev { name: "three chunk groups carrying the same pad, 100/131/90 samples", run: sim, banks: e });
    // TRG problems and an unknown bank among good ones
    v.push(Ev { name: "missing TRG", run: sim, banks: vec![wire("09", 0, 150, 0), wire("10", 1, 150, 0)] });
    v.push(Ev { name: "duplicate TRG", run: sim, banks: vec![trg(1), trg(2), wire("09", 0, 150, 0)] });
    v.push(Ev { name: "unknown bank among good ones", run: sim, banks: vec![trg(1), ("XXXX".into(), vec![1]), wire("09", 0, 150, 0), wire("10", 1, 150, 0)] });
    v.push(Ev { name: "malformed wire among good ones and a second error (duplicate TRG)", run: sim, banks: vec![trg(1), trg(1), wire("09", 0, 150, 0), ("C101".into(), vec![1, 3, 0])] });
    // five pad groups (all 120 group orders)
    let mut e: Banks = vec![trg(3)];
    for (i, (bd, chip)) in [("12", 0u8), ("12", 1), ("13", 2), ("20", 3), ("21", 0)].iter().enumerate() {
        e.extend(pad_msg(bd, *chip, *chip, 131, &[4 + i as u16, 40], i as u64 % 2, 8192));
    }
    v.push(Ev { name: "five pad groups", run: sim, banks: e });
    // real run number
    let mut e: Banks = vec![trg(8), wire("09", 0, 160, 0), wire("18", 31, 160, 1)];
    e.extend(pad_msg("12", 0, 0, 140, &[4, 5, 30], 0, 8192));
    v.push(Ev { name: "run 11200, 2 wires, 1 pad group", run: 11200, banks: e });
    // simulated multi-track events (structured orders only)
    // simulated multi-track events with noise avalanches (ties between Hough bins become likely)
    for li in if thorough { vec![7u64, 1234, 2999, 4001, 55, 808, 3111, 2020] } else { vec![7u64, 808] } {
        let spec = lattice_event(li, 0);
        let mut hits = ionisation(m, &spec);
        let mut x = 0x9E37_79B9u64.wrapping_mul(li + 1);
        for _ in 0..24 {
            x = x.wrapping_mul(6364136223846793005).wrapping_add(1442695040888963407);
            hits.push(Hit { wire: ((x >> 20) % 256) as usize, bin: 5 + ((x >> 30) % 250) as usize, z: -1.0 + 2.0 * (((x >> 40) % 1000) as f64 / 1000.0), amp: 40.0 + ((x >> 50) % 60) as f64 });
        }
        v.push(Ev { name: "forward-model lattice event with 24 noise avalanches", run: sim, banks: banks(m, &signals(m, spec.sigma_z, &hits), 100 + li as u32) });
    }
    v
}

// ---------------------------------------------------------------------------
// stateright model: choose the next bank, then the group order; the terminal
// transition executes the real code.
// ---------------------------------------------------------------------------
#[derive(Clone, Debug, Hash, PartialEq, Eq)]
struct St {
    chosen: Vec<u8>,
    /// Some(outcome) once executed
    result: Option<Result<u64, String>>,
}

struct OrderModel {
    run: u32,
    banks: Arc<Banks>,
    groups: usize,
    reference: Outcome,
    executions: Arc<AtomicU64>,
}

impl Model for OrderModel {
    type State = St;
    type Action = u64;
    fn init_states(&self) -> Vec<St> {
        vec![St { chosen: vec![], result: None }]
    }
    fn actions(&self, s: &St, a: &mut Vec<u64>) {
        if s.result.is_some() {
            return;
        }
        if s.chosen.len() < self.banks.len() {
            for i in 0..self.banks.len() as u64 {
                if !s.chosen.contains(&(i as u8)) {
                    a.push(i);
                }
            }
        } else {
            for g in 0..factorial(self.groups).max(1) {
                a.push(1000 + g);
            }
        }
    }
    fn next_state(&self, s: &St, a: u64) -> Option<St> {
        let mut n = s.clone();
        if a < 1000 {
            n.chosen.push(a as u8);
            return Some(n);
        }
        let ordered: Banks = s.chosen.iter().map(|&i| self.banks[i as usize].clone()).collect();
        self.executions.fetch_add(1, Ordering::Relaxed);
        n.result = Some(match evaluate(self.run, &ordered, Some(a - 1000)) {
            Err(p) => Err(format!("panic: {p}")),
            Ok((Ok(h), _)) => Ok(h),
            Ok((Err(()), _)) => Ok(0),
        });
        // keep the group choice in the state so that executions are not merged
        n.chosen.push(200);
        n.chosen.extend((a - 1000).to_le_bytes());
        Some(n)
    }
    fn properties(&self) -> Vec<Property<Self>> {
        vec![
            Property::always("no panic", |_, s: &St| !matches!(&s.result, Some(Err(_)))),
            Property::always("every execution gives the reference outcome", |m: &OrderModel, s: &St| match &s.result {
                Some(Ok(h)) => match m.reference {
                    Ok(r) => *h == r,
                    Err(()) => *h == 0,
                },
                _ => true,
            }),
        ]
    }
}

pub fn run(args: &Args) -> i32 {
    let thorough = args.tier == Tier::Thorough;
    // child mode: print the fingerprint of one event and exit (fresh process: cold
    // lazy statics, new hash seeds)
    if let Ok(s) = std::env::var("AGV_C11_FP") {
        let i: usize = s.parse().unwrap();
        let evs = events(thorough);
        match evaluate(evs[i].run, &evs[i].banks, None) {
            Ok((o, _)) => println!("FP {:?}", o),
            Err(p) => println!("FP panic {p}"),
        }
        return 0;
    }
    let rep = super::report(args, "model_checking");
    rep.set_rule("model: state = (prefix of the chosen bank order, chosen iteration order of the (board, chip) group map); the terminal transition runs the real MainEvent::try_from_banks + timestamp + avalanches + vertex and records the fingerprint hash; every maximal path is one real execution (traces_validated_against_impl = executions); invariant: every execution of the same bank multiset gives the reference outcome (same Ok/Err; on Ok the same timestamp, avalanche list and vertex, bit for bit); non-trivial = an execution of an event with at least 3 banks");
    rep.assume("the only iteration-order nondeterminism inside the library is the (board, chip) HashMap of try_from_banks, owned through the hook; the other HashMaps are lookup tables, IndexMap and BTreeSet are order-stable");
    rep.assume("thread / process identity: each event is also evaluated on a fresh std thread and in a fresh process (cold lazy statics, new hash seeds) without the hook, i.e. with whatever order the HashMap produces there: that sub-dimension samples the hash seed and is labelled so");
    let evs = events(thorough);
    let max_all = if thorough { 7 } else { 6 };
    let states = AtomicU64::new(0);
    let execs = Arc::new(AtomicU64::new(0));

    // 1. exhaustive: all bank orders x all group orders through stateright
    let small: Vec<usize> = (0..evs.len()).filter(|&i| evs[i].banks.len() <= max_all).collect();
    rep.run("all-orders-x-group-orders", small.len() as u64, 900, true, &format!("every event with <= {max_all} banks: stateright BFS over all bank orders x all g! group iteration orders"), |k, loc| {
        let e = &evs[small[k as usize]];
        let what = json!({"event": e.name, "banks": e.banks.iter().map(|b| b.0.clone()).collect::<Vec<_>>(), "run": e.run});
        let (reference, groups) = match evaluate(e.run, &e.banks, Some(0)) {
            Ok(r) => r,
            Err(p) => {
                loc.violation(format!("panic:event:{}", panic_site(&p)), json!({"case": what, "panic": p}));
                return;
            }
        };
        if groups > 6 {
            return;
        }
        let mine = Arc::new(AtomicU64::new(0));
        let model = OrderModel { run: e.run, banks: Arc::new(e.banks.clone()), groups, reference, executions: mine.clone() };
        let checker = model.checker().spawn_bfs().join();
        states.fetch_add(checker.unique_state_count() as u64, Ordering::Relaxed);
        let n_exec = mine.load(Ordering::Relaxed);
        execs.fetch_add(n_exec, Ordering::Relaxed);
        // every execution (bank order x group order) is one evaluation of the real code; all are distinct inputs
        loc.bulk(n_exec, if e.banks.len() >= 3 { n_exec } else { 0 }, "executions");
        loc.note(hash64(&(e.name, &e.banks)), e.banks.len() >= 3, if reference.is_ok() { "reference-ok" } else { "reference-err" });
        for (name, path) in checker.discoveries() {
            let last = path.last_state().clone();
            let order: Vec<u8> = last.chosen.iter().copied().take_while(|&x| x != 200).collect();
            let g = last.chosen.iter().position(|&x| x == 200).map(|p| u64::from_le_bytes(last.chosen[p + 1..p + 9].try_into().unwrap()));
            let key = if name == "no panic" { "event:panic-under-some-order" } else { "event:order-dependent" };
            loc.violation(format!("{key}:{}", slug(e.name)), json!({"case": what, "bank_order": order, "group_order_index": g, "groups": groups, "reference": format!("{reference:?}"), "this_execution": format!("{:?}", last.result)}));
        }
        if loc.want_sample() {
            loc.sample(json!({"case": what, "groups": groups, "states": checker.unique_state_count(), "reference": format!("{reference:?}")}));
        }
    });

    // 2. structured orders for the larger events
    let large: Vec<usize> = (0..evs.len()).filter(|&i| evs[i].banks.len() > max_all).collect();
    let mut plan: Vec<(usize, u64, u64)> = Vec::new(); // (event, bank order k, group order)
    for &i in &large {
        let n = evs[i].banks.len() as u64;
        // order indices (see c04::order_of): 0 identity, 1 reversal, 2..2+n rotations, then n-1 adjacent
        // transpositions, then n move-to-front. Small events: all of them x 10 group orders; big events:
        // identity, reversal, every adjacent transposition, rotations and move-to-front on a stride x 4 group orders.
        let big = n > 24;
        let stride = if big { (n / 16).max(1) } else { 1 };
        let groups: &[u64] = if big { &[0, 1, 119, 362879] } else { &[0, 1, 2, 5, 23, 119, 719, 5039, 40319, 362879] };
        let mut ks: Vec<u64> = vec![0, 1];
        ks.extend((0..n).step_by(stride as usize).map(|r| 2 + r));
        ks.extend((0..n - 1).step_by(if big && !thorough { 4 } else { 1 }).map(|t| 2 + n + t));
        ks.extend((0..n).step_by(stride as usize).map(|m| 2 + n + (n - 1) + m));
        for k in ks {
            for &g in groups {
                plan.push((i, k, g));
            }
        }
    }
    let refs: Vec<Option<Outcome>> = evs.iter().map(|e| evaluate(e.run, &e.banks, Some(0)).ok().map(|r| r.0)).collect();
    rep.run("structured-orders", plan.len() as u64, 900, false, "events with more banks: identity, reversal, every adjacent transposition (quick: every 4th on big events), rotations and move-to-front (all of them up to 24 banks, on a stride of n/16 beyond) x 10 (big events: 4) group orders", |k, loc| {
        let (i, ord, g) = plan[k as usize];
        let e = &evs[i];
        let perm = order_of(e.banks.len(), ord, false);
        let ordered: Banks = perm.iter().map(|&j| e.banks[j].clone()).collect();
        let what = json!({"event": e.name, "banks": e.banks.len(), "order_index": ord, "group_order_index": g});
        execs.fetch_add(1, Ordering::Relaxed);
        match evaluate(e.run, &ordered, Some(g)) {
            Err(p) => loc.violation(format!("panic:event:{}", panic_site(&p)), json!({"case": what, "panic": p})),
            Ok((o, _)) => {
                loc.note(hash64(&(i, ord, g)), true, if o.is_ok() { "ok" } else { "err" });
                if Some(o) != refs[i] {
                    loc.violation(format!("event:order-dependent:{}", slug(e.name)), json!({"case": what, "reference": format!("{:?}", refs[i]), "this_execution": format!("{o:?}")}));
                }
            }
        }
    });

    // 3. repetition in the same thread, another thread, another process (hook off)
    let exe = std::env::current_exe().unwrap();
    let tier = args.tier;
    rep.run("threads-and-processes", evs.len() as u64, 900, true, "every event: 4 repetitions in this thread (after other events), a fresh std thread, and 2 fresh processes, all with the HashMap's own iteration order", |k, loc| {
        let e = &evs[k as usize];
        let what = json!({"event": e.name, "banks": e.banks.len()});
        let mut outs: Vec<(String, String)> = Vec::new();
        for rep_i in 0..4 {
            // interleave with another event so that this one does not start from a fresh state
            let other = &evs[(k as usize + 1 + rep_i) % evs.len()];
            let _ = evaluate(other.run, &other.banks, None);
            execs.fetch_add(1, Ordering::Relaxed);
            outs.push((format!("same thread #{rep_i}"), match evaluate(e.run, &e.banks, None) {
                Ok((o, _)) => format!("{o:?}"),
                Err(p) => format!("panic {p}"),
            }));
        }
        let (run, banks) = (e.run, e.banks.clone());
        let t = std::thread::Builder::new().stack_size(32 << 20).spawn(move || match evaluate(run, &banks, None) {
            Ok((o, _)) => format!("{o:?}"),
            Err(p) => format!("panic {p}"),
        }).unwrap().join().unwrap_or_else(|_| "thread panicked".into());
        outs.push(("fresh thread".into(), t));
        for pi in 0..2 {
            let out = std::process::Command::new(&exe).arg("C11").arg("--tier").arg(tier.name()).arg("--worker").env("AGV_C11_FP", k.to_string()).output();
            let s = out.map(|o| String::from_utf8_lossy(&o.stdout).trim().strip_prefix("FP ").unwrap_or("child gave no fingerprint").to_string()).unwrap_or_else(|e| format!("spawn failed: {e}"));
            outs.push((format!("fresh process #{pi}"), s));
        }
        execs.fetch_add(3, Ordering::Relaxed);
        loc.note(hash64(&(e.name, k)), true, "compared");
        if outs.iter().any(|o| o.1 != outs[0].1) {
            loc.violation(format!("event:not-reproducible:{}", slug(e.name)), json!({"case": what, "outcomes": outs}));
        }
        if outs.iter().any(|o| o.1.contains("gave no fingerprint") || o.1.contains("spawn failed")) {
            loc.violation("harness:child-process", json!({"case": what, "outcomes": outs}));
        }
    });
    // 4. history independence of the reconstruction: noisy multi-track events evaluated one after the other on
    //    one thread must give the same result as each of them on a fresh thread
    let n_hist = if thorough { 96 } else { 32 };
    rep.run("reconstruction-history", 1, 900, true, &format!("{n_hist} forward-model lattice events with 24 noise avalanches each: all evaluated in sequence on one thread (forward, then backward), each compared with its own evaluation on a fresh thread"), |_i, loc| {
        let m = maps();
        let mk = |k: u64| -> Banks {
            let spec = lattice_event((k * 131 + 17) % 4320, 0);
            let mut hits = ionisation(m, &spec);
            let mut x = 0xA5A5_5A5Au64.wrapping_mul(k + 3);
            for _ in 0..24 {
                x = x.wrapping_mul(6364136223846793005).wrapping_add(1442695040888963407);
                hits.push(Hit { wire: ((x >> 20) % 256) as usize, bin: 5 + ((x >> 30) % 250) as usize, z: -1.0 + 2.0 * (((x >> 40) % 1000) as f64 / 1000.0), amp: 40.0 + ((x >> 50) % 60) as f64 });
            }
            banks(m, &signals(m, spec.sigma_z, &hits), k as u32)
        };
        let evs: Vec<Banks> = (0..n_hist).map(mk).collect();
        let fresh: Vec<String> = evs.iter().map(|b| {
            let b = b.clone();
            std::thread::Builder::new().stack_size(32 << 20).spawn(move || format!("{:?}", evaluate(SIM_RUN, &b, None).map(|r| r.0))).unwrap().join().unwrap_or_else(|_| "thread panicked".into())
        }).collect();
        let mut seq: Vec<(usize, String)> = Vec::new();
        for i in (0..evs.len()).chain((0..evs.len()).rev()) {
            seq.push((i, format!("{:?}", evaluate(SIM_RUN, &evs[i], None).map(|r| r.0))));
        }
        execs.fetch_add(3 * n_hist, Ordering::Relaxed);
        loc.bulk(3 * n_hist, n_hist, "evaluations");
        loc.count("history_events_with_vertex", fresh.iter().filter(|f| f.starts_with("Ok(Ok")).count() as u64);
        for (i, s) in seq {
            if s != fresh[i] {
                loc.violation("event:result-depends-on-earlier-events", json!({"event_index": i, "fresh_thread": fresh[i], "after_other_events": s}));
                break;
            }
        }
    });
    let ex = execs.load(Ordering::Relaxed);
    rep.cov("states", json!(states.load(Ordering::Relaxed) + ex));
    rep.cov("transitions", json!(states.load(Ordering::Relaxed) + ex));
    rep.cov("traces_validated_against_impl", json!(ex));
    rep.cov("events", json!(evs.iter().map(|e| json!({"name": e.name, "banks": e.banks.len()})).collect::<Vec<_>>()));
    rep.finish()
}

fn slug(s: &str) -> String {
    s.chars().map(|c| if c.is_ascii_alphanumeric() { c.to_ascii_lowercase() } else { '-' }).collect::<String>().split('-').filter(|x| !x.is_empty()).collect::<Vec<_>>().join("-")
}
