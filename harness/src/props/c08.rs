//! C08 — channel identity is unambiguous: names, boards and detector elements biject.
use crate::core::*;
use crate::props::c01::{class_string, CLASS_ALPHABET};
use crate::props::c02::panic_site;
use crate::refmodel::tables::*;
use crate::Args;
use alpha_g_detector::alpha16::aw_map::TpcWirePosition;
use alpha_g_detector::alpha16::{self, Adc16ChannelId, Adc32ChannelId};
use alpha_g_detector::midas::*;
use alpha_g_detector::padwing::map::{TpcPadColumn, TpcPadPosition, PAD_PITCH_PHI};
use alpha_g_detector::padwing::{self, AfterId, PadChannelId};
use serde_json::json;
use std::f64::consts::PI;
use std::sync::atomic::{AtomicU8, Ordering};

/// What a documented name denotes: (kind, board, channel)
pub type Denotes = (&'static str, String, u32);

/// R6: the documented name list.
pub fn ref_name(s: &str) -> Option<Denotes> {
    let b = s.as_bytes();
    if b.len() != 4 || !s.is_ascii() {
        return None;
    }
    match s {
        "ATAT" => return Some(("trg", String::new(), 0)),
        "TRBA" => return Some(("trb3", String::new(), 0)),
        "MCVX" => return Some(("mcvertex", String::new(), 0)),
        "SEQ2" => return Some(("seq2", String::new(), 0)),
        "CBF1" | "CBF2" | "CBF3" | "CBF4" => return Some(("chronobox", format!("cb0{}", &s[3..]), 0)),
        _ => {}
    }
    let board = &s[1..3];
    let digit = |base: u32| -> Option<u32> {
        let c = b[3] as char;
        if c.is_ascii_lowercase() {
            return None;
        }
        c.to_digit(base)
    };
    match b[0] {
        b'B' if A16_BOARDS.iter().any(|x| x.0 == board) => digit(16).map(|d| ("bv", board.to_string(), d)),
        b'C' if A16_BOARDS.iter().any(|x| x.0 == board) => digit(32).map(|d| ("wire", board.to_string(), d)),
        b'P' if b[1] == b'C' && PWB_BOARDS.iter().any(|x| x.0 == &s[2..4]) => Some(("pad", s[2..4].to_string(), 0)),
        _ => None,
    }
}

fn a16_index(c: Adc16ChannelId) -> u32 {
    (0..=255u8).find(|&k| Adc16ChannelId::try_from(k).map(|x| x == c).unwrap_or(false)).map(|k| k as u32).unwrap_or(u32::MAX)
}
fn a32_index(c: Adc32ChannelId) -> u32 {
    (0..=255u8).find(|&k| Adc32ChannelId::try_from(k).map(|x| x == c).unwrap_or(false)).map(|k| k as u32).unwrap_or(u32::MAX)
}

/// What the real parsers say about `s`; Err(description) on an internal inconsistency.
fn real_name(s: &str) -> Result<Option<Denotes>, String> {
    let main = MainEventBankName::try_from(s).ok();
    let cb = ChronoboxBankName::try_from(s).ok();
    let seq = Seq2BankName::try_from(s).ok();
    let a16 = Adc16BankName::try_from(s).ok();
    let a32 = Adc32BankName::try_from(s).ok();
    let a = Alpha16BankName::try_from(s).ok();
    let pw = PadwingBankName::try_from(s).ok();
    let trg = TriggerBankName::try_from(s).ok();
    let trb = Trb3BankName::try_from(s).ok();
    let mc = McVertexBankName::try_from(s).ok();
    let mut found: Vec<Denotes> = Vec::new();
    if let Some(m) = main {
        found.push(match m {
            MainEventBankName::Alpha16(Alpha16BankName::A16(n)) => ("bv", n.board_id().name().to_string(), a16_index(n.channel_id())),
            MainEventBankName::Alpha16(Alpha16BankName::A32(n)) => ("wire", n.board_id().name().to_string(), a32_index(n.channel_id())),
            MainEventBankName::Padwing(n) => ("pad", n.board_id().name().to_string(), 0),
            MainEventBankName::Trg(_) => ("trg", String::new(), 0),
            MainEventBankName::Trb3(_) => ("trb3", String::new(), 0),
            MainEventBankName::McVertex(_) => ("mcvertex", String::new(), 0),
        });
    }
    if let Some(c) = cb {
        found.push(("chronobox", c.board_id.name().to_string(), 0));
    }
    if seq.is_some() {
        found.push(("seq2", String::new(), 0));
    }
    // the specific parsers must agree with the umbrella parser
    let specific: Vec<Denotes> = [
        a16.map(|n| ("bv", n.board_id().name().to_string(), a16_index(n.channel_id()))),
        a32.map(|n| ("wire", n.board_id().name().to_string(), a32_index(n.channel_id()))),
        pw.map(|n| ("pad", n.board_id().name().to_string(), 0)),
        trg.map(|_| ("trg", String::new(), 0)),
        trb.map(|_| ("trb3", String::new(), 0)),
        mc.map(|_| ("mcvertex", String::new(), 0)),
    ]
    .into_iter()
    .flatten()
    .collect();
    let main_part: Vec<Denotes> = found.iter().filter(|d| !matches!(d.0, "chronobox" | "seq2")).cloned().collect();
    if specific != main_part {
        return Err(format!("specific parsers {specific:?} disagree with MainEventBankName {main_part:?}"));
    }
    if let Some(a) = a {
        let d = match a {
            Alpha16BankName::A16(n) => ("bv", n.board_id().name().to_string(), a16_index(n.channel_id())),
            Alpha16BankName::A32(n) => ("wire", n.board_id().name().to_string(), a32_index(n.channel_id())),
        };
        if !main_part.contains(&d) {
            return Err(format!("Alpha16BankName accepts {d:?} but MainEventBankName does not"));
        }
    } else if main_part.iter().any(|d| matches!(d.0, "bv" | "wire")) {
        return Err("MainEventBankName accepts an Alpha16 name that Alpha16BankName rejects".into());
    }
    match found.len() {
        0 => Ok(None),
        1 => Ok(Some(found.pop().unwrap())),
        _ => Err(format!("name denotes more than one thing: {found:?}")),
    }
}

fn check_name(s: &str, loc: &mut Local) -> bool {
    let expect = ref_name(s);
    match guard(|| real_name(s)) {
        Err(p) => loc.violation(format!("panic:name:{}", panic_site(&p)), json!({"name": s, "bytes": hex(s.as_bytes()), "panic": p})),
        Ok(Err(e)) => loc.violation("name:parsers-inconsistent", json!({"name": s, "what": e})),
        Ok(Ok(got)) => {
            if got != expect {
                let key = match (&got, &expect) {
                    (Some(_), None) => "name:undocumented-accepted",
                    (None, Some(_)) => "name:documented-rejected",
                    _ => "name:denotes-wrong-channel",
                };
                loc.violation(key, json!({"name": s, "bytes": hex(s.as_bytes()), "real": format!("{got:?}"), "documented": format!("{expect:?}")}));
            }
        }
    }
    expect.is_some()
}

fn wrap_pi(x: f64) -> f64 {
    let mut x = x % (2.0 * PI);
    if x > PI {
        x -= 2.0 * PI;
    }
    if x < -PI {
        x += 2.0 * PI;
    }
    x
}

/// reference wire index from the snapshot tables
pub fn ref_wire(board: &str, ch: u8) -> usize {
    let (_, p1, p2) = PREAMPS_2941.iter().find(|x| x.0 == board).unwrap();
    let m = INV_CHANNELS_2724[ch as usize];
    if m < 16 { p1 * 16 + m } else { p2 * 16 + (m - 16) }
}

pub fn wire_lookup(run: u32) -> Result<Vec<Option<usize>>, String> {
    guard(|| {
        let mut v = Vec::with_capacity(256);
        for (name, _) in A16_BOARDS {
            let b = alpha16::BoardId::try_from(name).unwrap();
            for ch in 0..32u8 {
                v.push(TpcWirePosition::try_new(run, b, Adc32ChannelId::try_from(ch).unwrap()).ok().map(usize::from));
            }
        }
        v
    })
}

pub fn pad_lookup(run: u32) -> Result<Vec<Option<(usize, usize)>>, String> {
    guard(|| {
        let mut v = Vec::with_capacity(71 * 288);
        for (name, _, _) in PWB_BOARDS {
            let b = padwing::BoardId::try_from(name).unwrap();
            for chip in 0..4u8 {
                let a = AfterId::try_from(chip).unwrap();
                for ch in 1..=72u16 {
                    v.push(TpcPadPosition::try_new(run, b, a, PadChannelId::try_from(ch).unwrap()).ok().map(|p| (usize::from(p.column), usize::from(p.row))));
                }
            }
        }
        v
    })
}

/// 0 = every lookup errors, 1 = bijection, 2 = anything else
fn wire_status(v: &[Option<usize>]) -> u8 {
    if v.iter().all(|x| x.is_none()) {
        return 0;
    }
    let mut seen = [0u32; 256];
    for w in v.iter().flatten() {
        if *w < 256 {
            seen[*w] += 1;
        }
    }
    if v.iter().all(|x| x.is_some()) && seen.iter().all(|&c| c == 1) { 1 } else { 2 }
}
fn pad_status(v: &[Option<(usize, usize)>]) -> u8 {
    if v.iter().all(|x| x.is_none()) {
        return 0;
    }
    let mut seen = vec![0u32; 32 * 576];
    for (c, r) in v.iter().flatten() {
        if *c < 32 && *r < 576 {
            seen[c * 576 + r] += 1;
        }
    }
    // boards are either completely installed or completely absent
    let boards_ok = v.chunks(288).all(|b| b.iter().all(|x| x.is_some()) || b.iter().all(|x| x.is_none()));
    let installed = v.chunks(288).filter(|b| b[0].is_some()).count();
    if boards_ok && installed == 64 && seen.iter().all(|&c| c == 1) { 1 } else { 2 }
}

pub fn run(args: &Args) -> i32 {
    let rep = super::report(args, "exploration");
    rep.set_rule("names: every enumerated string goes through all ten bank-name parsers and is compared with the documented name list R6 (accepted set, denoted (kind, board, channel), one denotation per name); maps: every (board, channel) / (board, chip, channel) lookup of a run number is collected and classified as all-error / bijection / other; non-trivial name = 4 ASCII bytes; non-trivial run = map exists; distinct by hash of the string / run number");
    rep.assume("documented name list and board tables are a snapshot of the pinned tree (refmodel/tables.rs); the numeric run boundaries are NOT hard-coded: the oracle demands error* then bijection* over ascending run numbers");
    let thorough = args.tier == Tier::Thorough;

    // ---- names -----------------------------------------------------------
    let alpha: Vec<u8> = if thorough { (0..128u8).collect() } else { b"0123456789ABCDEFGHIJKLMNOPQRSTUVWXYZabcfpvw _+-./\0\x7f".to_vec() };
    let na = alpha.len() as u64;
    rep.run("names-4-bytes", na * na * na, 60, true, &format!("every 4-byte string over {} ASCII symbols ({}); one case = {} strings", na, if thorough { "all of ASCII" } else { "digits, upper case, some lower case and punctuation, NUL, DEL" }, na), |idx, loc| {
        let d = unrank(idx, &[na, na, na]);
        let mut documented = 0;
        for &c in &alpha {
            let bytes = [alpha[d[0] as usize], alpha[d[1] as usize], alpha[d[2] as usize], c];
            let s = std::str::from_utf8(&bytes).unwrap();
            if check_name(s, loc) {
                documented += 1;
            }
        }
        loc.bulk(na, na, "parsed");
        loc.count("documented_names_seen", documented);
        if loc.want_sample() {
            loc.sample(json!({"prefix": hex(&[alpha[d[0] as usize], alpha[d[1] as usize], alpha[d[2] as usize]]), "last_byte": "whole alphabet"}));
        }
    });
    if thorough {
        // every 5-byte and 3-byte string over the 51-symbol alphabet of the quick tier (one byte more / less than a name)
        let a5: Vec<u8> = b"0123456789ABCDEFGHIJKLMNOPQRSTUVWXYZabcfpvw _+-./\0\x7f".to_vec();
        let n5 = a5.len() as u64;
        rep.run("names-5-bytes", n5 * n5 * n5 * n5, 120, true, &format!("every 5-byte string over {n5} ASCII symbols (one case = {n5} strings) - none is a documented name"), |idx, loc| {
            let d = unrank(idx, &[n5, n5, n5, n5]);
            for &c in &a5 {
                let bytes = [a5[d[0] as usize], a5[d[1] as usize], a5[d[2] as usize], a5[d[3] as usize], c];
                check_name(std::str::from_utf8(&bytes).unwrap(), loc);
            }
            loc.bulk(n5, 0, "parsed");
        });
        rep.run("names-3-bytes", n5 * n5, 60, true, &format!("every 3-byte string over {n5} ASCII symbols (one case = {n5} strings)"), |idx, loc| {
            let d = unrank(idx, &[n5, n5]);
            for &c in &a5 {
                let bytes = [a5[d[0] as usize], a5[d[1] as usize], c];
                check_name(std::str::from_utf8(&bytes).unwrap(), loc);
            }
            loc.bulk(n5, 0, "parsed");
        });
    }
    // other lengths and non-ASCII
    let maxlen = if thorough { 5 } else { 4 };
    let mut total = 0u64;
    let mut offs = vec![];
    for l in 0..=maxlen {
        offs.push(total);
        total += 24u64.pow(l);
    }
    rep.run("names-class-strings", total, 60, true, &format!("every string of 0..={maxlen} symbols over the 24-symbol class alphabet {:?} (other lengths, multi-byte characters)", CLASS_ALPHABET), |idx, loc| {
        let l = offs.iter().rposition(|&o| o <= idx).unwrap();
        let s = class_string(idx - offs[l], l);
        check_name(&s, loc);
        loc.note(hash64(s.as_bytes()), s.len() == 4 && s.is_ascii(), "parsed");
    });
    // non-ASCII characters of every case class and width
    const UNI: [&str; 16] = ["B", "C", "P", "A", "0", "1", "9", "É", "Ω", "Ⓐ", "é", "١", "Ⅷ", "ǅ", "𝐀", "ß"];
    rep.run("names-unicode-case", 1 + 16 + 256 + 4096 + 65536, 60, true, "every string of 0..=4 symbols over {B, C, P, A, 0, 1, 9, É, Ω, Ⓐ, é, ١, Ⅷ, ǅ, 𝐀, ß} (upper / lower / title case, digits and numerals of 2, 3 and 4 bytes)", |idx, loc| {
        let mut x = idx;
        let mut l = 0usize;
        let mut block = 1u64;
        while x >= block {
            x -= block;
            block *= 16;
            l += 1;
        }
        let mut s = String::new();
        for _ in 0..l {
            s.push_str(UNI[(x % 16) as usize]);
            x /= 16;
        }
        check_name(&s, loc);
        loc.note(hash64(&(s.as_bytes(), "uni")), s.len() == 4, "parsed");
    });
    // strings assembled from the tokens documented names are made of (repeated prefixes, doubled board numbers, a
    // whole name followed by another): every sequence of 0..=4 tokens
    let tokens = ["B", "C", "PC", "AT", "ATAT", "TRBA", "MCVX", "CBF", "CBF1", "SEQ2", "09", "00", "77", "18", "0", "A", "F", "V", "1", " "];
    let nt = tokens.len() as u64;
    rep.run("names-token-strings", 1 + nt + nt * nt + nt * nt * nt + nt * nt * nt * nt, 60, true, &format!("every concatenation of 0..=4 tokens out of {tokens:?}"), |idx, loc| {
        let mut x = idx;
        let mut l = 0usize;
        let mut block = 1u64;
        while x >= block {
            x -= block;
            block *= nt;
            l += 1;
        }
        let mut s = String::new();
        for _ in 0..l {
            s.push_str(tokens[(x % nt) as usize]);
            x /= nt;
        }
        check_name(&s, loc);
        loc.note(hash64(&(s.as_bytes(), "tok")), s.len() == 4, "parsed");
    });
    let prefixes = ["", "B", "C", "PC", "CB", "CBF", "SEQ", "SE", "ATA", "AT", "TRB", "MCV", "B09", "C18", "PC0", "CBF0", "SEQ2", "ATAT", "CBF1"];
    let suf: Vec<char> = "0123459+- AFVWZa.\t".chars().collect();
    let ns = suf.len() as u64;
    let per: u64 = 1 + ns + ns * ns + ns * ns * ns + ns * ns * ns * ns;
    rep.run("names-prefix-suffix", prefixes.len() as u64 * per, 60, true, "19 documented prefixes x every suffix of 0..=4 symbols over {digits, +, -, space, tab, letters, '.'} (number-like spellings of other lengths)", |idx, loc| {
        let p = prefixes[(idx / per) as usize];
        let mut x = idx % per;
        let mut len = 0;
        let mut span = 1;
        while x >= span {
            x -= span;
            span *= ns;
            len += 1;
        }
        let mut s = p.to_string();
        for _ in 0..len {
            s.push(suf[(x % ns) as usize]);
            x /= ns;
        }
        check_name(&s, loc);
        loc.note(hash64(s.as_bytes()), s.len() == 4, "parsed");
    });
    // documented names with one character inserted / deleted / case-flipped
    let mut documented: Vec<String> = vec!["ATAT".into(), "TRBA".into(), "MCVX".into(), "SEQ2".into(), "CBF1".into(), "CBF2".into(), "CBF3".into(), "CBF4".into()];
    for (b, _) in A16_BOARDS {
        for d in 0..16 {
            documented.push(format!("B{b}{}", std::char::from_digit(d, 16).unwrap().to_ascii_uppercase()));
        }
        for d in 0..32 {
            documented.push(format!("C{b}{}", std::char::from_digit(d, 32).unwrap().to_ascii_uppercase()));
        }
    }
    for (b, _, _) in PWB_BOARDS {
        documented.push(format!("PC{b}"));
    }
    assert_eq!(documented.len(), 8 + 128 + 256 + 71);
    let ins: Vec<char> = "0 1A+\0é".chars().collect();
    let nd = documented.len() as u64;
    rep.run("names-documented-edits", nd * (1 + 5 * ins.len() as u64 + 4 + 4), 60, true, "each of the 463 documented names: as is; one of 7 characters inserted at each of 5 positions; each character deleted; each character case-flipped", |idx, loc| {
        let per = 1 + 5 * ins.len() as u64 + 8;
        let name = &documented[(idx / per) as usize];
        let k = idx % per;
        let chars: Vec<char> = name.chars().collect();
        let s: String = if k == 0 {
            name.clone()
        } else if k <= 5 * ins.len() as u64 {
            let (pos, c) = (((k - 1) % 5) as usize, ins[((k - 1) / 5) as usize]);
            let mut v = chars.clone();
            v.insert(pos, c);
            v.into_iter().collect()
        } else if k <= 5 * ins.len() as u64 + 4 {
            let pos = (k - 1 - 5 * ins.len() as u64) as usize;
            let mut v = chars.clone();
            v.remove(pos);
            v.into_iter().collect()
        } else {
            let pos = (k - 5 - 5 * ins.len() as u64) as usize;
            let mut v = chars.clone();
            v[pos] = if v[pos].is_ascii_uppercase() { v[pos].to_ascii_lowercase() } else { v[pos].to_ascii_uppercase() };
            v.into_iter().collect()
        };
        if k == 0 && ref_name(&s).is_none() {
            loc.violation("harness:documented-list", json!({"name": s}));
        }
        check_name(&s, loc);
        loc.note(hash64(s.as_bytes()), s.len() == 4, "parsed");
    });

    // ---- wire map: every run number ------------------------------------------
    let runs: Vec<u32> = (0..=20000u32).chain([u32::MAX / 2, u32::MAX - 2, u32::MAX - 1, u32::MAX]).collect();
    let nruns = runs.len();
    let wire_st: Vec<AtomicU8> = (0..nruns).map(|_| AtomicU8::new(9)).collect();
    let sim_w = wire_lookup(u32::MAX).unwrap_or_default();
    let r5000_w = wire_lookup(5000).unwrap_or_default();
    rep.run("wire-map-all-runs", nruns as u64, 60, true, "every run number 0..=20000 plus {2^31-1, 2^32-3, 2^32-2, 2^32-1}: all 8 boards x 32 channels", |idx, loc| {
        let run = runs[idx as usize];
        match wire_lookup(run) {
            Err(p) => loc.violation(format!("panic:wire-map:{}", panic_site(&p)), json!({"run": run, "panic": p})),
            Ok(v) => {
                let st = wire_status(&v);
                wire_st[idx as usize].store(st, Ordering::Relaxed);
                loc.note(run as u64, st == 1, ["no-map", "bijection", "broken"][st as usize]);
                if st == 2 {
                    loc.violation("wire-map:not-a-bijection", json!({"run": run, "lookups_ok": v.iter().flatten().count()}));
                }
                if st == 1 {
                    // the snapshot tables give the documented wire of every (board, channel)
                    let mut k = 0;
                    for (name, _) in A16_BOARDS {
                        for ch in 0..32u8 {
                            if v[k] != Some(ref_wire(name, ch)) {
                                loc.violation("wire-map:differs-from-documented-table", json!({"run": run, "board": name, "channel": ch, "real": v[k], "documented": ref_wire(name, ch)}));
                                return;
                            }
                            k += 1;
                        }
                    }
                }
            }
        }
    });
    if sim_w != r5000_w || wire_status(&sim_w) != 1 {
        rep.violation_global("wire-map:simulation-differs-from-run-5000", json!({"what": "TpcWirePosition::try_new(u32::MAX, ..) must equal run 5000 element-wise and be a bijection"}));
    }
    // ---- pad map ---------------------------------------------------------------
    // cheap fingerprint of every run, full bijection check where the fingerprint changes (+-2), on a stride, and at the ends
    let fp = |run: u32| -> Vec<Option<(usize, usize)>> {
        PWB_BOARDS.iter().map(|(name, _, _)| {
            let b = padwing::BoardId::try_from(*name).unwrap();
            TpcPadPosition::try_new(run, b, AfterId::A, PadChannelId::try_from(1).unwrap()).ok().map(|p| (usize::from(p.column), usize::from(p.row)))
        }).collect()
    };
    let fps: Vec<Vec<Option<(usize, usize)>>> = runs.iter().map(|&r| guard(|| fp(r)).unwrap_or_default()).collect();
    let mut full: Vec<usize> = Vec::new();
    for i in 0..nruns {
        let boundary = (i > 0 && fps[i] != fps[i - 1]) || (i + 1 < nruns && fps[i] != fps[i + 1]);
        let near = (i.saturating_sub(2)..=(i + 2).min(nruns - 1)).any(|j| j > 0 && fps[j] != fps[j - 1]);
        if thorough || boundary || near || i % 211 == 0 || i + 6 > nruns || i < 2 {
            full.push(i);
        }
    }
    let pad_st: Vec<AtomicU8> = (0..nruns).map(|_| AtomicU8::new(9)).collect();
    rep.run("pad-map-runs", full.len() as u64, 120, thorough, if thorough { "every run number 0..=20000 plus 4 large ones: all 71 boards x 4 chips x 72 pad channels" } else { "run numbers where the one-lookup-per-board fingerprint (computed for all 20005 runs) changes, +-2, every 211th run and the ends: all 71 boards x 4 chips x 72 pad channels" }, |idx, loc| {
        let i = full[idx as usize];
        let run = runs[i];
        match pad_lookup(run) {
            Err(p) => loc.violation(format!("panic:pad-map:{}", panic_site(&p)), json!({"run": run, "panic": p})),
            Ok(v) => {
                let st = pad_status(&v);
                pad_st[i].store(st, Ordering::Relaxed);
                loc.note(run as u64 | 1 << 40, st == 1, ["no-map", "bijection", "broken"][st as usize]);
                if st == 2 {
                    loc.violation("pad-map:not-a-bijection", json!({"run": run, "lookups_ok": v.iter().flatten().count(), "boards_installed": v.chunks(288).filter(|b| b[0].is_some()).count()}));
                }
            }
        }
    });
    // sequence oracle: error* then bijection*, over ascending run numbers
    let mut seen_ok_w = None;
    let mut seen_ok_p = None;
    for i in 0..nruns {
        let w = wire_st[i].load(Ordering::Relaxed);
        if w == 1 && seen_ok_w.is_none() {
            seen_ok_w = Some(runs[i]);
        }
        if w == 0 && seen_ok_w.is_some() && rep.one.is_none() {
            rep.violation_global("wire-map:hole-after-first-map", json!({"run": runs[i], "first_run_with_map": seen_ok_w}));
            break;
        }
    }
    for i in 0..nruns {
        // fingerprint says whether any board resolves at this run
        let any = fps[i].iter().any(|x| x.is_some());
        if any && seen_ok_p.is_none() {
            seen_ok_p = Some(runs[i]);
        }
        if !any && seen_ok_p.is_some() && rep.one.is_none() {
            rep.violation_global("pad-map:hole-after-first-map", json!({"run": runs[i], "first_run_with_map": seen_ok_p}));
            break;
        }
    }
    if rep.one.is_none() && (seen_ok_w.is_none() || seen_ok_p.is_none() || seen_ok_w == Some(0) || seen_ok_p == Some(0)) {
        rep.violation_global("map:no-error-before-first-map", json!({"first_wire_run": seen_ok_w, "first_pad_run": seen_ok_p, "what": "run numbers before the first map must give an error, and some run must have a map"}));
    }
    rep.cov("first_run_with_wire_map", json!(seen_ok_w));
    rep.cov("first_run_with_pad_map", json!(seen_ok_p));
    let sim_p = pad_lookup(u32::MAX).unwrap_or_default();
    let r5000_p = pad_lookup(5000).unwrap_or_default();
    if (sim_p != r5000_p || pad_status(&sim_p) != 1) && rep.one.is_none() {
        rep.violation_global("pad-map:simulation-differs-from-run-5000", json!({"what": "TpcPadPosition::try_new(u32::MAX, ..) must equal run 5000 element-wise and be a bijection"}));
    }

    // ---- history independence: the same element asked for under changing run numbers --------
    let hist_runs: Vec<u32> = vec![0, 2940, 2941, 4417, 4418, 5000, 10417, 10418, 20000, u32::MAX, 5000, 10418, 4417, 10418, 5000, 0, u32::MAX, 2940, 10417, 4418];
    let mut distinct_runs = hist_runs.clone();
    distinct_runs.sort();
    distinct_runs.dedup();
    // reference values computed run by run (run in the outer loop), each on a fresh thread
    let fresh: Vec<(u32, Vec<Option<usize>>, Vec<Option<(usize, usize)>>)> = distinct_runs.iter().map(|&r| {
        std::thread::spawn(move || (r, wire_lookup(r).unwrap_or_default(), pad_lookup(r).unwrap_or_default())).join().unwrap()
    }).collect();
    rep.run("lookup-history", (8 + 71) as u64, 120, true, "every Alpha16 board (32 channels) and every PadWing board (4 chips x 72 channels): the same element is looked up under a sequence of 20 run numbers that jumps back and forth across every map boundary (run number in the INNER loop); every answer must equal the one obtained run by run on a fresh thread", |idx, loc| {
        let r = guard(|| {
            let mut bad: Vec<String> = Vec::new();
            if idx < 8 {
                let (name, _) = A16_BOARDS[idx as usize];
                let b = alpha16::BoardId::try_from(name).unwrap();
                for ch in 0..32u8 {
                    for &run in &hist_runs {
                        let got = TpcWirePosition::try_new(run, b, Adc32ChannelId::try_from(ch).unwrap()).ok().map(usize::from);
                        let want = fresh.iter().find(|f| f.0 == run).unwrap().1[idx as usize * 32 + ch as usize];
                        if got != want {
                            bad.push(format!("wire board {name} channel {ch} run {run}: {got:?} after other runs, {want:?} fresh"));
                        }
                    }
                }
            } else {
                let bi = idx as usize - 8;
                let (name, _, _) = PWB_BOARDS[bi];
                let b = padwing::BoardId::try_from(name).unwrap();
                for chip in 0..4u8 {
                    for ch in 1..=72u16 {
                        for &run in &hist_runs {
                            let got = TpcPadPosition::try_new(run, b, AfterId::try_from(chip).unwrap(), PadChannelId::try_from(ch).unwrap()).ok().map(|p| (usize::from(p.column), usize::from(p.row)));
                            let want = fresh.iter().find(|f| f.0 == run).unwrap().2[bi * 288 + chip as usize * 72 + ch as usize - 1];
                            if got != want {
                                bad.push(format!("pad board {name} chip {chip} channel {ch} run {run}: {got:?} after other runs, {want:?} fresh"));
                            }
                        }
                    }
                }
            }
            bad
        });
        loc.note(idx | 1 << 43, true, "compared");
        match r {
            Err(p) => loc.violation(format!("panic:map:{}", panic_site(&p)), json!({"board_index": idx, "panic": p})),
            Ok(bad) => {
                if !bad.is_empty() {
                    loc.violation("map:answer-depends-on-earlier-lookups", json!({"board_index": idx, "differences": bad.len(), "first": bad[0]}));
                }
            }
        }
    });

    // ---- geometry --------------------------------------------------------------
    rep.run("wire-pad-column-geometry", 256, 60, true, "all 256 wires: wire_to_pad_column vs azimuth of the wire and of the pad column centre; membership in pad_column_to_wires", |idx, loc| {
        let w = idx as usize;
        let r = guard(|| {
            let col = alpha_g_physics::verif_hooks::wire_to_pad_column(w);
            let range = alpha_g_physics::verif_hooks::pad_column_to_wires(col);
            let phi_w = TpcWirePosition::try_from(w).unwrap().phi();
            let phi_c = TpcPadColumn::try_from(col).map(|c| c.phi());
            (col, range, phi_w, phi_c)
        });
        match r {
            Err(p) => loc.violation(format!("panic:geometry:{}", panic_site(&p)), json!({"wire": w, "panic": p})),
            Ok((col, range, phi_w, phi_c)) => {
                loc.note(idx | 1 << 41, true, "checked");
                let Ok(phi_c) = phi_c else {
                    loc.violation("geometry:column-out-of-range", json!({"wire": w, "column": col}));
                    return;
                };
                if wrap_pi(phi_w - phi_c).abs() >= PAD_PITCH_PHI / 2.0 {
                    loc.violation("geometry:wire-not-over-its-column", json!({"wire": w, "column": col, "phi_wire": phi_w, "phi_column": phi_c}));
                }
                if !(range.len() == 8 && range.clone().any(|x| x % 256 == w)) {
                    loc.violation("geometry:wire-not-in-column-range", json!({"wire": w, "column": col, "range": [range.start, range.end]}));
                }
                for x in range {
                    if x >= 256 || alpha_g_physics::verif_hooks::wire_to_pad_column(x) != col {
                        loc.violation("geometry:column-range-inconsistent", json!({"column": col, "wire": x}));
                    }
                }
            }
        }
    });
    // hook-free variant: one avalanche on wire w, pad charge placed in column c' in {c-1, c, c+1}: an
    // avalanche may only come out when c' is the column over the wire (public API only)
    rep.run("wire-pad-association-through-avalanches", 256 * 3, 300, true, "all 256 wires x pad cluster placed in the geometric column of the wire and its two neighbours: MainEvent::try_from_banks + avalanches() (simulation run) yields the avalanche only for the geometric column", |idx, loc| {
        use crate::refmodel::sim::*;
        let w = (idx / 3) as usize;
        let m = maps();
        // geometric column from azimuths only
        let phi_w = TpcWirePosition::try_from(w).unwrap().phi();
        let col = (0..32).min_by(|a, b| {
            let d = |c: usize| wrap_pi(phi_w - TpcPadColumn::try_from(c).unwrap().phi()).abs();
            d(*a).partial_cmp(&d(*b)).unwrap()
        }).unwrap();
        let placed = (col + 32 + (idx % 3) as usize - 1) % 32;
        let mut sig = signals(m, 0.004, &[Hit { wire: w, bin: 30, z: 0.1013, amp: 120.0 }]);
        let pads: Vec<((usize, usize), Vec<f64>)> = sig.pads.iter().map(|((_, r), s)| ((placed, *r), s.clone())).collect();
        sig.pads = pads.into_iter().collect();
        let banks = banks(m, &sig, 1);
        let r = guard(|| alpha_g_physics::MainEvent::try_from_banks(SIM_RUN, banks.iter().map(|(n, d)| (n.as_str(), &d[..]))).map(|e| e.avalanches().len()).map_err(|e| e.to_string()));
        loc.note(idx | 1 << 42, true, "evaluated");
        match r {
            Err(p) => loc.violation(format!("panic:event:{}", panic_site(&p)), json!({"wire": w, "panic": p})),
            Ok(Err(e)) => loc.violation("geometry:event-rejected", json!({"wire": w, "error": e})),
            Ok(Ok(n)) => {
                if (placed == col) != (n > 0) {
                    loc.violation("geometry:wire-matched-with-wrong-pad-column", json!({"wire": w, "geometric_column": col, "pads_placed_in_column": placed, "avalanches": n}));
                }
            }
        }
    });
    rep.finish()
}
