//! C04 — PWB packet reassembly is arrival-order independent and loss/duplication safe.
use crate::core::*;
use crate::props::c02::panic_site;
use crate::props::c05::mk_pwb;
use crate::refmodel::tables::PWB_BOARDS;
use crate::refmodel::*;
use crate::Args;
use alpha_g_detector::padwing::{Chunk, PwbPacket, PwbV2Packet};
use serde_json::json;

#[derive(Clone, Copy, Debug, PartialEq)]
enum Fault {
    None,
    Drop(usize),
    Dup(usize),
    ForeignBoard(usize),
    ForeignChip(usize),
    ToggleEom(usize),
    Resize(usize, i64),
    /// all chunk ids shifted by +1 (id 0 missing although the count is right)
    ShiftIds,
    /// two faults at once: chunk i dropped and chunk j duplicated (the count is right again)
    DropDup(usize, usize),
    /// chunk i keeps its payload but carries another chunk's id (so one id is missing and one is doubled while,
    /// in arrival order, the payload would still be the right one)
    Relabel(usize, usize),
    /// the boundary between two NON-final chunks i and i+1 moved by d bytes (the total is unchanged, and so is the sum of
    /// the non-final sizes)
    Shift(usize, i64),
}

struct Scenario {
    payload: usize,
    sizes: Vec<usize>,
    fault: Fault,
    orders: u64,
    all_orders: bool,
}

fn factorial(n: usize) -> u64 {
    (1..=n as u64).product()
}

/// k-th order of m items: all m! (Lehmer) when `all`, else identity, reversal,
/// rotations, adjacent transpositions, move-to-front.
pub fn order_of(m: usize, k: u64, all: bool) -> Vec<usize> {
    let mut v: Vec<usize> = (0..m).collect();
    if all {
        let mut k = k;
        let mut items = v.clone();
        v.clear();
        for i in (0..m).rev() {
            let f = factorial(i);
            let idx = (k / f) as usize;
            k %= f;
            v.push(items.remove(idx));
        }
        return v;
    }
    let k = k as usize;
    if k == 0 {
    } else if k == 1 {
        v.reverse();
    } else if k < 2 + m {
        v.rotate_left(k - 2);
    } else if k < 2 + m + (m - 1) {
        let i = k - 2 - m;
        v.swap(i, i + 1);
    } else {
        let i = k - 2 - m - (m - 1);
        let x = v.remove(i);
        v.insert(0, x);
    }
    v
}
fn limited_orders(m: usize) -> u64 {
    if m == 0 {
        1
    } else {
        (2 + m + (m - 1) + m) as u64
    }
}

fn build_chunks(payload: &[u8], sizes: &[usize], fault: Fault) -> Vec<Vec<u8>> {
    let n = sizes.len();
    let mut out = Vec::new();
    let mut pos = 0;
    for (i, &s) in sizes.iter().enumerate() {
        let part = payload[pos..pos + s].to_vec();
        pos += s;
        let mut c = RefChunk { device_id: PWB_BOARDS[12].2, packet_sequence: 77, channel_sequence: 5, chip: 1, flags: (i + 1 == n) as u8, chunk_id: i as u16, payload: part };
        match fault {
            Fault::ForeignBoard(j) if j == i => c.device_id = PWB_BOARDS[13].2,
            Fault::ForeignChip(j) if j == i => c.chip = 2,
            Fault::ToggleEom(j) if j == i => c.flags ^= 1,
            Fault::ShiftIds => c.chunk_id += 1,
            Fault::Relabel(j, id) if j == i => c.chunk_id = id as u16,
            _ => {}
        }
        out.push(ref_chunk_encode(&c));
    }
    match fault {
        Fault::Drop(j) => {
            out.remove(j);
        }
        Fault::Dup(j) => {
            let c = out[j].clone();
            out.push(c);
        }
        Fault::DropDup(i, j) => {
            let c = out[j].clone();
            out[i] = c;
        }
        _ => {}
    }
    out
}

fn reassemble(bytes: &[Vec<u8>]) -> Result<Result<String, String>, String> {
    guard(|| {
        let chunks: Vec<Chunk> = bytes.iter().map(|b| Chunk::try_from(&b[..]).expect("harness chunk must decode")).collect();
        let chunks2 = chunks.clone();
        let r = PwbV2Packet::try_from(chunks).map(|p| format!("{p:?}")).map_err(|e| e.to_string());
        let w = PwbPacket::try_from(chunks2).map(|p| match p {
            PwbPacket::V2(p) => format!("{p:?}"),
        });
        match (&r, &w) {
            (Ok(a), Ok(b)) if a == b => {}
            (Err(_), Err(_)) => {}
            _ => panic!("PwbPacket and PwbV2Packet reassembly disagree"),
        }
        r
    })
}

pub fn run(args: &Args) -> i32 {
    let rep = super::report(args, "fault_enumeration");
    rep.set_rule("a case = one arrival order of one chunk multiset (payload x chunk size x fault), reassembled by PwbV2Packet::try_from(Vec<Chunk>) and PwbPacket::try_from(Vec<Chunk>); non-trivial = the multiset has at least 2 chunks; distinct by hash of (scenario, order)");
    rep.assume("chunks are built with the reference chunk encoder and turned into Chunk values through Chunk::try_from (the only constructor); chunk decoding itself is C03");
    rep.assume("a 'different payload size' fault demands failure only when the non-final chunks do not all have the same length (with 2 chunks there is a single non-final chunk)");
    let thorough = args.tier == Tier::Thorough;
    let max_all = if thorough { 8 } else { 5 };

    let mut broken = ref_pwb_encode(&mk_pwb(3, 1, 4, &[7, 30], 0, 0));
    let n = broken.len();
    broken[n - 1] = 0;
    let payloads: Vec<Vec<u8>> = vec![
        ref_pwb_encode(&mk_pwb(1, 1, 0, &[], 0, 0)),
        ref_pwb_encode(&mk_pwb(2, 1, 3, &[40], 1 << 39, 0)),
        ref_pwb_encode(&mk_pwb(3, 1, 4, &[7, 30], 0, 0)),
        broken,
        ref_pwb_encode(&mk_pwb(4, 1, 511, &(1..=79).collect::<Vec<u16>>(), 0, 1)),
    ];
    let valid: Vec<bool> = payloads.iter().map(|p| ref_pwb_decode(p).is_some()).collect();
    assert_eq!(valid, vec![true, true, true, false, true]);
    // MAC of the packet need not match the chunk's device for reassembly; fine.

    let mut scen: Vec<Scenario> = Vec::new();
    for (pi, p) in payloads.iter().enumerate() {
        let l = p.len();
        let sizes_list: Vec<usize> = if pi < 4 { (1..=l).collect() } else { vec![8192, 16384, 27090, 40634, 65535] };
        // every chunk size twice: the usual layout (last chunk shorter or equal) and the layout whose last chunk takes the
        // remainder on top of a full chunk (last chunk LONGER than the others - legal: only non-final chunks must agree)
        let layouts: Vec<(usize, bool)> = sizes_list.iter().flat_map(|&s| [(s, false), (s, true)]).collect();
        for (s, long_last) in layouts {
            let n = if long_last { l / s } else { l.div_ceil(s) };
            if n == 0 || (long_last && (l % s == 0 || n < 2 || l - s * (n - 1) > 65535)) {
                continue;
            }
            let mut sizes = vec![s; n];
            sizes[n - 1] = l - s * (n - 1);
            let mut faults = vec![Fault::None, Fault::ShiftIds];
            for i in 0..n {
                faults.extend([Fault::Drop(i), Fault::Dup(i), Fault::ForeignBoard(i), Fault::ForeignChip(i), Fault::ToggleEom(i)]);
                if i + 1 < n {
                    faults.extend([Fault::Resize(i, 1), Fault::Resize(i, -1)]);
                }
                if i + 2 < n {
                    faults.extend([Fault::Shift(i, 1), Fault::Shift(i, -1), Fault::Shift(i, 5), Fault::Shift(i, -5)]);
                }
                if n <= 8 {
                    for j in 0..n {
                        if j != i {
                            faults.push(Fault::DropDup(i, j));
                            if j + 1 == i || j == i + 1 || j == 0 || j + 1 == n {
                                faults.push(Fault::Relabel(i, j));
                            }
                        }
                    }
                    faults.push(Fault::Relabel(i, n));
                }
            }
            if pi == 4 {
                // the large packet: keep one fault of each kind per position class
                faults.retain(|f| match f {
                    Fault::None | Fault::ShiftIds => true,
                    Fault::Drop(i) | Fault::Dup(i) | Fault::ForeignBoard(i) | Fault::ForeignChip(i) | Fault::ToggleEom(i) | Fault::Resize(i, _) | Fault::DropDup(i, _) | Fault::Relabel(i, _) | Fault::Shift(i, _) => *i == 0 || *i + 1 >= n.saturating_sub(1),
                });
            }
            for f in faults {
                let mut sz = sizes.clone();
                if let Fault::Resize(i, d) = f {
                    let a = sz[i] as i64 + d;
                    let b = sz[n - 1] as i64 - d;
                    if a < 1 || b < 1 || a > 65535 || b > 65535 {
                        continue;
                    }
                    sz[i] = a as usize;
                    sz[n - 1] = b as usize;
                }
                if let Fault::Shift(i, d) = f {
                    let a = sz[i] as i64 + d;
                    let b = sz[i + 1] as i64 - d;
                    if a < 1 || b < 1 || a > 65535 || b > 65535 {
                        continue;
                    }
                    sz[i] = a as usize;
                    sz[i + 1] = b as usize;
                }
                let m = match f {
                    Fault::Drop(_) => n - 1,
                    Fault::Dup(_) => n + 1,
                    _ => n,
                };
                let all = m <= max_all;
                let orders = if all { factorial(m) } else { limited_orders(m) };
                scen.push(Scenario { payload: pi, sizes: sz, fault: f, orders, all_orders: all });
            }
        }
    }
    let mut prefix = Vec::with_capacity(scen.len() + 1);
    let mut tot = 0u64;
    for s in &scen {
        prefix.push(tot);
        tot += s.orders;
    }
    rep.cov("scenarios", json!(scen.len()));
    rep.cov("scenarios_with_all_permutations", json!(scen.iter().filter(|s| s.all_orders).count()));
    rep.cov("max_chunks_with_all_permutations", json!(max_all));

    rep.run("orders-x-faults", tot, 60, false,
        "5 payloads (0/1/2 channels, undecodable, largest legal 81268-byte packet) x chunk size (every 1..=L for the small ones; 5 sizes for the large) x fault {none, ids shifted, drop i, duplicate i, foreign board i, foreign chip i, toggle EOM i, resize non-final i by +-1, drop i and duplicate j, chunk i carrying the id of a neighbour / the first / the last / one past the last (<= 8 chunks), the boundary between two non-final chunks moved by +-1 / +-5 bytes} x arrival orders (all m! for m <= bound, else identity/reversal/rotations/adjacent transpositions/move-to-front)",
        |idx, loc| {
            let si = match prefix.binary_search(&idx) {
                Ok(i) => i,
                Err(i) => i - 1,
            };
            let sc = &scen[si];
            let k = idx - prefix[si];
            let payload = &payloads[sc.payload];
            let chunks = build_chunks(payload, &sc.sizes, sc.fault);
            let m = chunks.len();
            let ord = order_of(m, k, sc.all_orders);
            let permuted: Vec<Vec<u8>> = ord.iter().map(|&i| chunks[i].clone()).collect();
            let h = hash64(&(si, k));
            let desc = || json!({"payload": sc.payload, "payload_len": payload.len(), "chunk_sizes": if sc.sizes.len() > 12 { json!(format!("{} x {} ..", sc.sizes.len(), sc.sizes[0])) } else { json!(sc.sizes) }, "fault": format!("{:?}", sc.fault), "order": if ord.len() > 16 { json!(format!("k={k}")) } else { json!(ord) }});
            let r = match reassemble(&permuted) {
                Ok(r) => r,
                Err(p) => {
                    loc.note(h, m >= 2, "panic");
                    loc.violation(format!("panic:reassembly:{}", panic_site(&p)), json!({"case": desc(), "panic": p}));
                    return;
                }
            };
            loc.note(h, m >= 2, if r.is_ok() { "ok" } else { "err" });
            // (i) same as the identity order
            if k != 0 {
                match reassemble(&chunks) {
                    Ok(r0) => {
                        if r0.is_ok() != r.is_ok() || (r.is_ok() && r0 != r) {
                            loc.violation("reassembly:order-dependent", json!({"case": desc(), "this_order": r.as_ref().map(|_| "Ok").map_err(|e| e.clone()), "identity_order": r0.as_ref().map(|_| "Ok").map_err(|e| e.clone())}));
                        }
                    }
                    Err(p) => loc.violation(format!("panic:reassembly:{}", panic_site(&p)), json!({"case": desc(), "panic": p})),
                }
            }
            // (ii)/(iii) expected outcome from the statement
            let sizes_equal = sc.sizes.len() < 3 || sc.sizes[..sc.sizes.len() - 1].windows(2).all(|w| w[0] == w[1]);
            let must_fail = match sc.fault {
                Fault::None => false,
                Fault::Resize(..) => !sizes_equal,
                // a single chunk cannot be "mixed" with another board/chip
                Fault::ForeignBoard(_) | Fault::ForeignChip(_) => sc.sizes.len() >= 2,
                _ => true,
            };
            if must_fail {
                if r.is_ok() {
                    loc.violation(format!("reassembly:fault-accepted:{}", fault_kind(sc.fault)), json!({"case": desc()}));
                }
            } else {
                let direct = guard(|| PwbV2Packet::try_from(&payload[..]).map(|p| format!("{p:?}")).map_err(|e| e.to_string()));
                match direct {
                    Err(p) => loc.violation(format!("panic:pwb:{}", panic_site(&p)), json!({"case": desc(), "panic": p})),
                    Ok(d) => {
                        if d.is_ok() != valid[sc.payload] {
                            loc.violation("reassembly:direct-decode-unexpected", json!({"case": desc()}));
                        }
                        if r.is_ok() != d.is_ok() {
                            loc.violation("reassembly:differs-from-direct", json!({"case": desc(), "reassembled": r.as_ref().map(|_| "Ok").map_err(|e| e.clone()), "direct": d.as_ref().map(|_| "Ok").map_err(|e| e.clone())}));
                        } else if r.is_ok() && r != d {
                            loc.violation("reassembly:packet-differs-from-direct", json!({"case": desc()}));
                        }
                    }
                }
            }
            if loc.want_sample() {
                loc.sample(json!({"case": desc(), "result": r.as_ref().map(|_| "Ok").map_err(|e| e.clone())}));
            }
        });
    // ---- every pair of boards and every pair of chips mixed in one message (device ids that differ in few bits)
    {
        let p3 = &payloads[2];
        let l = p3.len();
        let s = l.div_ceil(3);
        let sizes = [s, s, l - 2 * s];
        rep.run("board-and-chip-pairs", 71 * 71 * 3 + 4 * 4 * 3, 60, true, "a 3-chunk message of board a (all 71) in which chunk 0 / 1 / 2 comes from board b (all 70 others); the same for all ordered pairs of the 4 chips: reassembly must fail", |idx, loc| {
            let (boards, x) = if idx < 71 * 71 * 3 { (true, idx) } else { (false, idx - 71 * 71 * 3) };
            let (a, b, pos) = if boards { ((x / 3 / 71) as usize, (x / 3 % 71) as usize, (x % 3) as usize) } else { ((x / 3 / 4) as usize, (x / 3 % 4) as usize, (x % 3) as usize) };
            if a == b {
                return;
            }
            let mut off = 0;
            let chunks: Vec<Vec<u8>> = (0..3).map(|i| {
                let part = p3[off..off + sizes[i]].to_vec();
                off += sizes[i];
                let dev = if boards { PWB_BOARDS[if i == pos { b } else { a }].2 } else { PWB_BOARDS[5].2 };
                let chip = if boards { 1 } else if i == pos { b as u8 } else { a as u8 };
                ref_chunk_encode(&RefChunk { device_id: dev, packet_sequence: 9, channel_sequence: 1, chip, flags: (i == 2) as u8, chunk_id: i as u16, payload: part })
            }).collect();
            let what = json!({"kind": if boards { "boards" } else { "chips" }, "message_of": if boards { json!(PWB_BOARDS[a].0) } else { json!(a) }, "foreign": if boards { json!(PWB_BOARDS[b].0) } else { json!(b) }, "foreign_chunk": pos});
            let h = hash64(&("pairs", idx));
            match reassemble(&chunks) {
                Err(p) => {
                    loc.note(h, true, "panic");
                    loc.violation(format!("panic:reassembly:{}", panic_site(&p)), json!({"case": what, "panic": p}));
                }
                Ok(r) => {
                    loc.note(h, true, if r.is_ok() { "ok" } else { "err" });
                    if r.is_ok() {
                        loc.violation(format!("reassembly:fault-accepted:{}", if boards { "foreign-board" } else { "foreign-chip" }), json!({"case": what}));
                    }
                }
            }
        });
    }

    // ---- the same chunk multisets delivered as PC banks to the event builder (the library's own caller of the
    //      reassembly): a fault that must fail in the reassembly must not be masked by the way the caller
    //      collects the chunks, and the outcome must not depend on the bank order
    {
        use crate::props::event::{build, pad_samples};
        use crate::refmodel::sim::{pwb_payload, trg_packet, SIM_RUN};
        let board = PWB_BOARDS[12].0;
        let chans: Vec<(u16, Vec<i16>)> = [4u16, 30].iter().map(|&ro| (ro, pad_samples(ro, 131, 0))).collect();
        let ev_payload = pwb_payload(board, 1, 131, &chans);
        let l = ev_payload.len();
        let mut escen: Vec<Scenario> = Vec::new();
        for nchunks in 1..=6usize {
            let s = l.div_ceil(nchunks);
            let n = l.div_ceil(s);
            let mut sizes = vec![s; n];
            sizes[n - 1] = l - s * (n - 1);
            let mut faults = vec![Fault::None, Fault::ShiftIds];
            for i in 0..n {
                faults.extend([Fault::Drop(i), Fault::Dup(i), Fault::ForeignBoard(i), Fault::ForeignChip(i), Fault::ToggleEom(i), Fault::Relabel(i, n)]);
                if i + 1 < n {
                    faults.extend([Fault::Resize(i, 1), Fault::Resize(i, -1)]);
                }
                if i + 2 < n {
                    faults.extend([Fault::Shift(i, 1), Fault::Shift(i, -3)]);
                }
                for j in 0..n {
                    if j != i {
                        faults.extend([Fault::DropDup(i, j), Fault::Relabel(i, j)]);
                    }
                }
            }
            for f in faults {
                let mut sz = sizes.clone();
                if let Fault::Resize(i, d) = f {
                    let (a, b) = (sz[i] as i64 + d, sz[n - 1] as i64 - d);
                    if a < 1 || b < 1 {
                        continue;
                    }
                    sz[i] = a as usize;
                    sz[n - 1] = b as usize;
                }
                if let Fault::Shift(i, d) = f {
                    let (a, b) = (sz[i] as i64 + d, sz[i + 1] as i64 - d);
                    if a < 1 || b < 1 {
                        continue;
                    }
                    sz[i] = a as usize;
                    sz[i + 1] = b as usize;
                }
                let m = match f {
                    Fault::Drop(_) => n - 1,
                    Fault::Dup(_) => n + 1,
                    _ => n,
                };
                let all = m <= max_all;
                escen.push(Scenario { payload: 0, sizes: sz, fault: f, orders: if all { factorial(m) } else { limited_orders(m) }, all_orders: all });
            }
        }
        let mut eprefix = Vec::with_capacity(escen.len());
        let mut etot = 0u64;
        for s in &escen {
            eprefix.push(etot);
            etot += s.orders;
        }
        rep.cov("event_level_scenarios", json!(escen.len()));
        rep.run("through-event-builder", etot, 120, false,
            "a 2-channel PWB message of the simulation run cut into 1..=6 chunks x the fault list x arrival orders, delivered as PCxx banks (plus a TRG bank) to MainEvent::try_from_banks: a chunk set that must fail to reassemble must make the event fail, the fault-free set must build, and Ok/Err and the pad signals must be the same for every order",
            |idx, loc| {
                let si = match eprefix.binary_search(&idx) {
                    Ok(i) => i,
                    Err(i) => i - 1,
                };
                let sc = &escen[si];
                let k = idx - eprefix[si];
                let chunks = build_chunks(&ev_payload, &sc.sizes, sc.fault);
                let ord = order_of(chunks.len(), k, sc.all_orders);
                let name_of = |c: &Vec<u8>| {
                    let id = u32::from_le_bytes(c[0..4].try_into().unwrap());
                    format!("PC{}", PWB_BOARDS.iter().find(|b| b.2 == id).unwrap().0)
                };
                let mk = |order: &[usize]| -> Vec<(String, Vec<u8>)> {
                    let mut b = vec![("ATAT".to_string(), trg_packet(3))];
                    b.extend(order.iter().map(|&i| (name_of(&chunks[i]), chunks[i].clone())));
                    b
                };
                let desc = || json!({"chunk_sizes": sc.sizes, "fault": format!("{:?}", sc.fault), "order": ord});
                let pads = |banks: &Vec<(String, Vec<u8>)>| -> Result<Result<u64, String>, String> {
                    Ok(match build(SIM_RUN, banks)? {
                        Err(e) => Err(e),
                        Ok(ev) => Ok(hash64(&ev.verif_pad_signals().iter().flatten().map(|s| s.as_ref().map(|v| v.iter().map(|x| x.to_bits()).collect::<Vec<u64>>())).collect::<Vec<_>>())),
                    })
                };
                let h = hash64(&("ev", si, k));
                let r = match pads(&mk(&ord)) {
                    Ok(r) => r,
                    Err(p) => {
                        loc.note(h, true, "panic");
                        loc.violation(format!("panic:event:{}", panic_site(&p)), json!({"case": desc(), "panic": p}));
                        return;
                    }
                };
                loc.note(h, chunks.len() >= 2, if r.is_ok() { "event-ok" } else { "event-err" });
                let sizes_equal = sc.sizes.len() < 3 || sc.sizes[..sc.sizes.len() - 1].windows(2).all(|w| w[0] == w[1]);
                let must_fail = match sc.fault {
                    Fault::None => false,
                    Fault::Resize(..) => !sizes_equal,
                    // the event builder groups chunks by (board, chip): with a single chunk there is nothing to mix
                    Fault::ForeignBoard(_) | Fault::ForeignChip(_) => sc.sizes.len() >= 2,
                    _ => true,
                };
                // (dropping the only chunk leaves an event without pad data, which is fine)
                if must_fail && !chunks.is_empty() && r.is_ok() {
                    loc.violation(format!("event:chunk-fault-accepted:{}", fault_kind(sc.fault)), json!({"case": desc()}));
                }
                if sc.fault == Fault::None && r.is_err() {
                    loc.violation("event:fault-free-message-rejected", json!({"case": desc(), "error": r.clone().err()}));
                }
                if k != 0 {
                    let id: Vec<usize> = (0..chunks.len()).collect();
                    match pads(&mk(&id)) {
                        Ok(r0) => {
                            if r0.is_ok() != r.is_ok() || (r.is_ok() && r0 != r) {
                                loc.violation("event:chunk-order-dependent", json!({"case": desc(), "this_order": r.as_ref().map(|_| "Ok").map_err(|e| e.clone()), "identity_order": r0.as_ref().map(|_| "Ok").map_err(|e| e.clone())}));
                            }
                        }
                        Err(p) => loc.violation(format!("panic:event:{}", panic_site(&p)), json!({"case": desc(), "panic": p})),
                    }
                }
                if loc.want_sample() {
                    loc.sample(json!({"case": desc(), "event": r.as_ref().map(|_| "Ok").map_err(|e| e.clone())}));
                }
            });
    }
    rep.finish()
}

fn fault_kind(f: Fault) -> &'static str {
    match f {
        Fault::None => "none",
        Fault::Drop(_) => "drop",
        Fault::Dup(_) => "duplicate",
        Fault::ForeignBoard(_) => "foreign-board",
        Fault::ForeignChip(_) => "foreign-chip",
        Fault::ToggleEom(_) => "toggle-eom",
        Fault::Resize(..) => "resize",
        Fault::ShiftIds => "shift-ids",
        Fault::DropDup(..) => "drop-and-duplicate",
        Fault::Relabel(..) => "relabel",
        Fault::Shift(..) => "shift-boundary",
    }
}
