//! C10 — event assembly puts each waveform on its detector element, calibrated, or fails.
use crate::core::*;
use crate::props::c02::panic_site;
use crate::props::event::*;
use crate::refmodel::calib::{pad_cal, wire_cal};
use crate::refmodel::sim::*;
use crate::refmodel::tables::*;
use crate::refmodel::*;
use crate::Args;
use alpha_g_detector::alpha16::aw_map::TpcWirePosition;
use alpha_g_detector::alpha16::{Adc32ChannelId, BoardId as ABoard};
use alpha_g_detector::padwing::map::{TpcPadPosition, TpcPwbColumn, TpcPwbPosition, TpcPwbRow};
use alpha_g_detector::padwing::{AfterId, BoardId as PBoard, PadChannelId};
use alpha_g_physics::MainEvent;
use serde_json::json;

const RUNS: [u32; 13] = [0, 2940, 2941, 6999, 7000, 7025, 7026, 9276, 9277, 11083, 11084, 11500, u32::MAX];
const WIRE_NS: usize = 150;
const PAD_NS: u16 = 131;

fn expected_signal(raw: &[i16], baseline: i16, gain: f64, delay: usize) -> Option<Vec<f64>> {
    let v: Vec<f64> = raw.iter().skip(delay).map(|&s| (s as i32 - baseline as i32) as f64 * gain).collect();
    if v.is_empty() { None } else { Some(v) }
}

fn close(a: &[f64], b: &[f64]) -> bool {
    a.len() == b.len() && a.iter().zip(b).all(|(x, y)| x == y || (x - y).abs() <= 1e-12 * x.abs().max(y.abs()))
}

/// Compare all 256 wire slots and all 18432 pad slots with the expectation.
fn compare_slots(ev: &MainEvent, wires: &[(usize, Vec<f64>)], pads: &[((usize, usize), Vec<f64>)]) -> Result<(), String> {
    let ws = ev.verif_wire_signals();
    for (w, slot) in ws.iter().enumerate() {
        let want = wires.iter().find(|(i, _)| *i == w).map(|(_, v)| v);
        match (slot, want) {
            (None, None) => {}
            (Some(g), Some(e)) if close(g, e) => {}
            (Some(g), Some(e)) => return Err(format!("wire {w}: calibrated waveform differs (len {} vs {}, first got {:?} want {:?})", g.len(), e.len(), g.first(), e.first())),
            (Some(_), None) => return Err(format!("wire {w} has a signal but no bank was given for it")),
            (None, Some(_)) => return Err(format!("wire {w} is empty but a bank was given for it")),
        }
    }
    let ps = ev.verif_pad_signals();
    for (c, col) in ps.iter().enumerate() {
        for (r, slot) in col.iter().enumerate() {
            let want = pads.iter().find(|(i, _)| *i == (c, r)).map(|(_, v)| v);
            match (slot, want) {
                (None, None) => {}
                (Some(g), Some(e)) if close(g, e) => {}
                (Some(g), Some(e)) => return Err(format!("pad ({c},{r}): calibrated waveform differs (len {} vs {}, first got {:?} want {:?})", g.len(), e.len(), g.first(), e.first())),
                (Some(_), None) => return Err(format!("pad ({c},{r}) has a signal but no channel was sent for it")),
                (None, Some(_)) => return Err(format!("pad ({c},{r}) is empty but a channel was sent for it")),
            }
        }
    }
    Ok(())
}

fn wire_slot(run: u32, board: &str, ch: u8) -> Option<usize> {
    TpcWirePosition::try_new(run, ABoard::try_from(board).unwrap(), Adc32ChannelId::try_from(ch).unwrap()).ok().map(usize::from)
}
fn pad_slot(run: u32, board: &str, chip: u8, ch: u16) -> Option<(usize, usize)> {
    TpcPadPosition::try_new(run, PBoard::try_from(board).unwrap(), AfterId::try_from(chip).unwrap(), PadChannelId::try_from(ch).unwrap()).ok().map(|p| (usize::from(p.column), usize::from(p.row)))
}

/// Evaluate one event against the expectation: `expect` = None means the build must fail.
fn judge(run: u32, banks: &Banks, ts: u32, expect: Option<(Vec<(usize, Vec<f64>)>, Vec<((usize, usize), Vec<f64>)>)>, what: serde_json::Value, loc: &mut Local) {
    let h = hash64(&(run, banks));
    match build(run, banks) {
        Err(p) => {
            loc.note(h, true, "panic");
            loc.violation(format!("panic:event:{}", panic_site(&p)), json!({"case": what, "run": run, "panic": p}));
        }
        Ok(Err(e)) => {
            loc.note(h, expect.is_some(), "rejected");
            if expect.is_some() {
                loc.violation("event:consistent-event-rejected", json!({"case": what, "run": run, "error": e}));
            }
        }
        Ok(Ok(ev)) => {
            loc.note(h, true, "built");
            match expect {
                None => {
                    let slug: String = what.get("fault").and_then(|f| f.as_str()).unwrap_or("unavailable-map-or-calibration").split(" (").next().unwrap().chars().map(|c| if c.is_ascii_alphanumeric() { c.to_ascii_lowercase() } else { '-' }).collect();
                    loc.violation(format!("event:inconsistent-event-accepted:{slug}"), json!({"case": what, "run": run}))
                }
                Some((w, p)) => {
                    if ev.timestamp() != ts {
                        loc.violation("event:timestamp", json!({"case": what, "run": run, "got": ev.timestamp(), "want": ts}));
                    }
                    if let Err(e) = compare_slots(&ev, &w, &p) {
                        loc.violation("event:waveform-misplaced-or-miscalibrated", json!({"case": what, "run": run, "what": e}));
                    }
                }
            }
        }
    }
    if loc.want_sample() {
        loc.sample(json!({"case": what, "run": run, "banks": banks.iter().map(|b| b.0.clone()).collect::<Vec<_>>()}));
    }
}

fn ignored_banks() -> Banks {
    vec![("B093".into(), vec![1, 2, 3]), ("TRBA".into(), vec![0xFF; 7]), ("MCVX".into(), vec![]), ("B18F".into(), wire_packet("18", 3, &wire_samples(3, 70, 0)))]
}

fn full_chip(board: &str, chip: u8, pattern_base: u64) -> (Vec<u8>, Vec<(u16, Vec<i16>)>) {
    let chans: Vec<(u16, Vec<i16>)> = (1..=79u16).map(|ro| (ro, pad_samples(ro, PAD_NS as usize, match ro % 9 { 4 => 1, 7 => 2, 8 => 3, _ => pattern_base }))).collect();
    (pwb_payload(board, chip, PAD_NS, &chans), chans)
}

pub fn run(args: &Args) -> i32 {
    let rep = super::report(args, "exploration");
    rep.set_rule("every case builds one event from spec-conformant banks and compares all 256 wire slots and all 18432 pad slots (through the cfg-guarded signal accessor) with (raw - baseline) * gain after removing the delay samples, computed from the calibration files read by the harness; or, for an inconsistent event, demands an error; non-trivial = the event was built or was expected to be built; distinct by hash of (run, banks)");
    rep.assume("the detector crate's map (TpcWirePosition / TpcPadPosition::try_new) is the specification of which element a channel belongs to (its correctness is C08)");
    rep.assume("run-number dispatch of the calibration files is a snapshot of the pinned tree and only exercised for runs <= 11500 and the simulation run");
    rep.assume("the 16-byte suppressed ADC form carries no MAC and no samples: the duplicate/mismatch clauses are applied to banks that carry a waveform");
    let thorough = args.tier == Tier::Thorough;
    let nr = RUNS.len() as u64;

    // 1. every single wire alone
    rep.run("single-wire-events", nr * 256, 120, true, "13 run classes x all 8 boards x 32 channels: TRG + that one wire bank (+ ignored banks)", |idx, loc| {
        let run = RUNS[(idx / 256) as usize];
        let (b, ch) = ((idx % 256 / 32) as usize, (idx % 32) as u8);
        let board = A16_BOARDS[b].0;
        let raw = wire_samples(ch, WIRE_NS, match ch % 8 { 1 => 1, 2 => 5, 3 => 6, _ => 0 });
        let ts = 0x1000_0000 + idx as u32;
        let mut banks: Banks = vec![("ATAT".into(), trg_packet(ts)), (wire_bank_name(board, ch), wire_packet(board, ch, &raw))];
        banks.extend(ignored_banks());
        let expect = wire_slot(run, board, ch).and_then(|w| wire_cal(run, w).map(|(bl, g, d)| (w, expected_signal(&raw, bl, g, d)))).map(|(w, s)| (s.map(|s| vec![(w, s)]).unwrap_or_default(), vec![]));
        judge(run, &banks, ts, expect, json!({"wire_bank": wire_bank_name(board, ch)}), loc);
    });
    // 2. a whole board at once (transpositions between channels become visible)
    rep.run("board-events", nr * 8 * 2, 120, true, "13 run classes x 8 boards x {forward, reversed bank order}: TRG + all 32 wire banks with distinct waveforms", |idx, loc| {
        let d = unrank(idx, &[8, 2, nr]);
        let run = RUNS[d[2] as usize];
        let board = A16_BOARDS[d[0] as usize].0;
        let ts = 77 + idx as u32;
        let mut banks: Banks = Vec::new();
        let mut want = Vec::new();
        let mut ok = true;
        for ch in 0..32u8 {
            let raw = wire_samples(ch, WIRE_NS + ch as usize, if ch % 8 == 1 { 1 } else { 0 });
            banks.push((wire_bank_name(board, ch), wire_packet(board, ch, &raw)));
            match wire_slot(run, board, ch).and_then(|w| wire_cal(run, w).map(|c| (w, c))) {
                Some((w, (bl, g, dl))) => {
                    if let Some(s) = expected_signal(&raw, bl, g, dl) {
                        want.push((w, s));
                    }
                }
                None => ok = false,
            }
        }
        if d[1] == 1 {
            banks.reverse();
        }
        banks.insert((idx % 5) as usize, ("ATAT".into(), trg_packet(ts)));
        judge(run, &banks, ts, if ok { Some((want, vec![])) } else { None }, json!({"board": board, "reversed": d[1] == 1}), loc);
    });
    // 3. every single pad alone
    let pad_runs: Vec<u32> = if thorough { RUNS.to_vec() } else { vec![4417, 4418, 9276, 9277, 10417, 10418, 11084, u32::MAX] };
    let npr = pad_runs.len() as u64;
    rep.run("single-pad-events", npr * 71 * 4 * 72, 120, true, "run classes x all 71 boards x 4 chips x 72 pad channels: TRG + one PWB message sending that pad and one FPN channel", |idx, loc| {
        let d = unrank(idx, &[72, 4, 71, npr]);
        let run = pad_runs[d[3] as usize];
        let board = PWB_BOARDS[d[2] as usize].0;
        let (chip, ch) = (d[1] as u8, d[0] as u16 + 1);
        let ro = readout_index(ch);
        let raw = pad_samples(ro, PAD_NS as usize, match ch % 9 { 4 => 1, 7 => 2, 8 => 3, _ => 0 });
        let ts = idx as u32;
        let payload = pwb_payload(board, chip, PAD_NS, &[(ro, raw.clone()), (16, pad_samples(16, PAD_NS as usize, 0))]);
        let mut banks: Banks = vec![("ATAT".into(), trg_packet(ts))];
        banks.extend(pwb_banks(board, chip, &payload, 8192));
        let expect = pad_slot(run, board, chip, ch).and_then(|p| pad_cal(run, p).map(|(bl, g, dl)| (p, expected_signal(&raw, bl, g, dl)))).map(|(p, s)| (vec![], s.map(|s| vec![(p, s)]).unwrap_or_default()));
        judge(run, &banks, ts, expect, json!({"board": board, "chip": chip, "pad_channel": ch}), loc);
    });
    // 4. whole chips (79 channels, 3 chunks) and two chips of a board together
    rep.run("chip-events", npr * 71 * 4, 120, true, "run classes x 71 boards x 4 chips: TRG + one message with all 79 channels (72 pads + FPN/reset) in 3 chunks, chunk banks reversed", |idx, loc| {
        let d = unrank(idx, &[4, 71, npr]);
        let run = pad_runs[d[2] as usize];
        let board = PWB_BOARDS[d[1] as usize].0;
        let chip = d[0] as u8;
        let (payload, chans) = full_chip(board, chip, 0);
        let ts = 5 + idx as u32;
        let mut banks: Banks = pwb_banks(board, chip, &payload, 8192);
        banks.reverse();
        banks.push(("ATAT".into(), trg_packet(ts)));
        let mut want = Vec::new();
        let mut ok = true;
        for ch in 1..=72u16 {
            let ro = readout_index(ch);
            let raw = &chans.iter().find(|c| c.0 == ro).unwrap().1;
            match pad_slot(run, board, chip, ch).and_then(|p| pad_cal(run, p).map(|c| (p, c))) {
                Some((p, (bl, g, dl))) => {
                    if let Some(s) = expected_signal(raw, bl, g, dl) {
                        want.push((p, s));
                    }
                }
                None => ok = false,
            }
        }
        judge(run, &banks, ts, if ok { Some((vec![], want)) } else { None }, json!({"board": board, "chip": chip, "channels": 79}), loc);
    });

    // 4b. wires and pads together (the two calibrations must not leak into each other)
    let mixed_runs = [9277u32, 10418, 11084, 11500, u32::MAX];
    rep.run("mixed-events", mixed_runs.len() as u64 * 8 * 2 * 2, 120, true, "5 run classes x 8 (Alpha16 board, PadWing board/chip) combinations x {wire banks first, pad banks first} x {one wire, two wires}: TRG + wire banks + one PWB message with 5 channels; all slots compared", |idx, loc| {
        let d = unrank(idx, &[8, 2, 2, mixed_runs.len() as u64]);
        let run = mixed_runs[d[3] as usize];
        let k = d[0] as usize;
        let ts = 900 + idx as u32;
        let mut wbanks: Banks = Vec::new();
        let mut want_w = Vec::new();
        let mut ok = true;
        for j in 0..=(d[2] as usize) {
            let (board, ch) = (A16_BOARDS[(k + j) % 8].0, ((k * 5 + j * 11) % 32) as u8);
            let raw = wire_samples(ch, WIRE_NS + 7 * j, j as u64);
            wbanks.push((wire_bank_name(board, ch), wire_packet(board, ch, &raw)));
            match wire_slot(run, board, ch).and_then(|w| wire_cal(run, w).map(|c| (w, c))) {
                Some((w, (bl, g, dl))) => {
                    if let Some(s) = expected_signal(&raw, bl, g, dl) {
                        want_w.push((w, s));
                    }
                }
                None => ok = false,
            }
        }
        let (pboard, chip) = (PWB_BOARDS[(k * 9 + 3) % 71].0, (k % 4) as u8);
        let chans: Vec<(u16, Vec<i16>)> = [4u16, 17, 16, 40, 79].iter().map(|&ro| (ro, pad_samples(ro, PAD_NS as usize, if ro == 40 { 1 } else { 0 }))).collect();
        let pbanks = pwb_banks(pboard, chip, &pwb_payload(pboard, chip, PAD_NS, &chans), 8192);
        let mut want_p = Vec::new();
        for (ro, raw) in &chans {
            if let Some(RefPwbChan::Pad(ch)) = ref_readout_to_chan(*ro) {
                match pad_slot(run, pboard, chip, ch).and_then(|p| pad_cal(run, p).map(|c| (p, c))) {
                    Some((p, (bl, g, dl))) => {
                        if let Some(s) = expected_signal(raw, bl, g, dl) {
                            want_p.push((p, s));
                        }
                    }
                    None => ok = false,
                }
            }
        }
        let mut banks: Banks = vec![("ATAT".into(), trg_packet(ts))];
        if d[1] == 0 {
            banks.extend(wbanks);
            banks.extend(pbanks);
        } else {
            banks.extend(pbanks);
            banks.extend(wbanks);
        }
        judge(run, &banks, ts, if ok { Some((want_w, want_p)) } else { None }, json!({"mixed": true, "pads_first": d[1] == 1, "pad_board": pboard, "chip": chip}), loc);
    });

    // 4c. history: the same board under run numbers that jump back and forth across the map / calibration
    //     boundaries, evaluated one after the other on one thread (run number in the inner loop)
    let hist_runs = [u32::MAX, 10418u32, u32::MAX, 9277, 11084, 4418, 11500, 10417, u32::MAX, 11084, 9277, 10418];
    rep.run("pad-events-run-history", 71 * 2, 300, true, "every PadWing board x chips {A, C}: the same 5-channel message is built under a sequence of 12 run numbers jumping across the 10418 map change and the calibration changes; every event judged on its own", |idx, loc| {
        let board = PWB_BOARDS[(idx / 2) as usize].0;
        let chip = (idx % 2) as u8 * 2;
        let chans: Vec<(u16, Vec<i16>)> = [4u16, 17, 16, 40, 79].iter().map(|&ro| (ro, pad_samples(ro, PAD_NS as usize, 0))).collect();
        let payload = pwb_payload(board, chip, PAD_NS, &chans);
        for (k, &run) in hist_runs.iter().enumerate() {
            let ts = 50 + k as u32;
            let mut banks: Banks = vec![("ATAT".into(), trg_packet(ts))];
            banks.extend(pwb_banks(board, chip, &payload, 8192));
            let mut want = Vec::new();
            let mut ok = true;
            for (ro, raw) in &chans {
                if let Some(RefPwbChan::Pad(ch)) = ref_readout_to_chan(*ro) {
                    // the expectation is looked up on a fresh thread, so that it does not share per-thread state with
                    // (and cannot be bent by the history of) the thread that builds the events
                    let slot = std::thread::scope(|sc| sc.spawn(|| pad_slot(run, board, chip, ch)).join().unwrap());
                    match slot.and_then(|p| pad_cal(run, p).map(|c| (p, c))) {
                        Some((p, (bl, g, dl))) => {
                            if let Some(s) = expected_signal(raw, bl, g, dl) {
                                want.push((p, s));
                            }
                        }
                        None => ok = false,
                    }
                }
            }
            judge(run, &banks, ts, if ok { Some((vec![], want)) } else { None }, json!({"history": true, "board": board, "chip": chip, "step": k, "runs": hist_runs}), loc);
        }
    });
    // 4d. a message without any pad channel needs no map: it must not make the build fail, whatever the board
    rep.run("messages-without-pad-channels", 71 * 3 * 3, 120, true, "every PadWing board (installed or not) x run {simulation, 11200, 4000} x channels {none, FPN only, reset + FPN}: TRG + that message: the event is built and every slot is empty", |idx, loc| {
        let d = unrank(idx, &[71, 3, 3]);
        let board = PWB_BOARDS[d[0] as usize].0;
        let run = [u32::MAX, 11200u32, 4000][d[1] as usize];
        let ros: &[u16] = [&[][..], &[16, 54][..], &[1, 2, 3, 29][..]][d[2] as usize];
        let chans: Vec<(u16, Vec<i16>)> = ros.iter().map(|&ro| (ro, pad_samples(ro, PAD_NS as usize, 1))).collect();
        let ts = 7000 + idx as u32;
        let mut banks: Banks = vec![("ATAT".into(), trg_packet(ts))];
        banks.extend(pwb_banks(board, 1, &pwb_payload(board, 1, PAD_NS, &chans), 8192));
        judge(run, &banks, ts, Some((vec![], vec![])), json!({"no_pad_channels": true, "board": board, "readouts": ros}), loc);
    });

    // 4e. "the run's map": the board tables of the detector crate are named after their first run (4418, 10418); the
    //     snapshot of those documented tables says where every board sits for every historic run
    rep.run("documented-board-positions", 11502 * 71, 120, true, "every run number 0..=11500 and the simulation run x all 71 PadWing boards: TpcPwbPosition::try_new gives the position of the documented table in force (first run 4418 / 10418; the simulation run maps like run 5000), an error for boards not in it and for runs before the first table", |idx, loc| {
        let (ri, bi) = (idx / 71, (idx % 71) as usize);
        let run = if ri == 11501 { u32::MAX } else { ri as u32 };
        let board = PWB_BOARDS[bi].0;
        let table = if run == u32::MAX { Some(&PWB_MAP_4418) } else if run >= 10418 { Some(&PWB_MAP_10418) } else if run >= 4418 { Some(&PWB_MAP_4418) } else { None };
        let want = table.and_then(|t| (0..8).flat_map(|c| (0..8).map(move |r| (c, r))).find(|&(c, r)| t[c][r] == board)).map(|(c, r)| TpcPwbPosition::new(TpcPwbColumn::try_from(c).unwrap(), TpcPwbRow::try_from(r).unwrap()));
        let got = guard(|| TpcPwbPosition::try_new(run, PBoard::try_from(board).unwrap()).ok());
        loc.note(hash64(&(run, bi, "pos")), run >= 4418, if want.is_some() { "installed" } else { "not-installed" });
        match got {
            Err(p) => loc.violation(format!("panic:map:{}", panic_site(&p)), json!({"run": run, "board": board, "panic": p})),
            Ok(g) => {
                if g != want {
                    loc.violation("map:board-position-differs-from-documented-table", json!({"run": run, "board": board, "library": format!("{g:?}"), "documented": format!("{want:?}")}));
                }
            }
        }
    });

    rep.run("documented-wire-map-epoch", 11502, 120, true, "every run number 0..=11500 and the simulation run x 8 Alpha16 boards x 32 channels: an error before run 2941 (the first run of the documented preamp table), the documented wire from then on", |ri, loc| {
        let run = if ri == 11501 { u32::MAX } else { ri as u32 };
        loc.note(hash64(&(run, "wire-epoch")), run >= 2941, if run >= 2941 { "mapped" } else { "no-map" });
        match crate::props::c08::wire_lookup(run) {
            Err(p) => loc.violation(format!("panic:map:{}", panic_site(&p)), json!({"run": run, "panic": p})),
            Ok(v) => {
                for (i, got) in v.iter().enumerate() {
                    let (board, ch) = (A16_BOARDS[i / 32].0, (i % 32) as u8);
                    let want = if run >= 2941 { Some(crate::props::c08::ref_wire(board, ch)) } else { None };
                    if *got != want {
                        loc.violation("map:wire-differs-from-documented-table", json!({"run": run, "board": board, "channel": ch, "library": got, "documented": want}));
                        break;
                    }
                }
            }
        }
    });

    // 5. every single inconsistency at every bank position (simulation run)
    let run_sim = u32::MAX;
    let base = || -> (Banks, Vec<(usize, Vec<f64>)>, Vec<((usize, usize), Vec<f64>)>) {
        let mut banks: Banks = vec![("ATAT".into(), trg_packet(4242))];
        let mut ww = Vec::new();
        for (b, ch) in [("09", 0u8), ("10", 5), ("18", 31)] {
            let raw = wire_samples(ch, WIRE_NS, 0);
            banks.push((wire_bank_name(b, ch), wire_packet(b, ch, &raw)));
            let w = wire_slot(run_sim, b, ch).unwrap();
            let (bl, g, dl) = wire_cal(run_sim, w).unwrap();
            ww.push((w, expected_signal(&raw, bl, g, dl).unwrap()));
        }
        let mut pp = Vec::new();
        for (board, chip, ros, csize) in [("12", 0u8, vec![4u16, 5, 30, 79], 600usize), ("13", 1, vec![20], 8192)] {
            let chans: Vec<(u16, Vec<i16>)> = ros.iter().map(|&ro| (ro, pad_samples(ro, PAD_NS as usize, 0))).collect();
            let payload = pwb_payload(board, chip, PAD_NS, &chans);
            banks.extend(pwb_banks(board, chip, &payload, csize));
            for (ro, raw) in &chans {
                if let Some(RefPwbChan::Pad(ch)) = ref_readout_to_chan(*ro) {
                    let p = pad_slot(run_sim, board, chip, ch).unwrap();
                    let (bl, g, dl) = pad_cal(run_sim, p).unwrap();
                    pp.push((p, expected_signal(raw, bl, g, dl).unwrap()));
                }
            }
        }
        banks.extend(ignored_banks());
        (banks, ww, pp)
    };
    let (base_banks, base_w, base_p) = base();
    let nb = base_banks.len() as u64;
    rep.cov("inconsistency_base_event_banks", json!(base_banks.iter().map(|b| b.0.clone()).collect::<Vec<_>>()));
    let bad_names = ["XXXX", "C190", "C09W", "c090", "PC99", "PC1", "ATAX", "C0900", "", "CBF1", "B09G", "TRBB", "Q"];
    rep.run("inconsistency-rename", nb * bad_names.len() as u64, 120, true, "base event (TRG, 3 wires, 2 PWB messages in 3 chunks, 4 ignored banks): every bank renamed to each of 13 undocumented names", |idx, loc| {
        let (i, k) = ((idx % nb) as usize, (idx / nb) as usize);
        let mut banks = base_banks.clone();
        banks[i].0 = bad_names[k].to_string();
        judge(run_sim, &banks, 4242, None, json!({"fault": "rename", "bank": base_banks[i].0, "to": bad_names[k]}), loc);
    });
    // faults described as closures producing (banks, must_fail)
    let wire_idx = [1usize, 2, 3];
    let pad_idx: Vec<usize> = base_banks.iter().enumerate().filter(|(_, b)| b.0.starts_with("PC")).map(|(i, _)| i).collect();
    let mut faults: Vec<(String, Banks, bool)> = Vec::new();
    for &i in &wire_idx {
        let (name, data) = base_banks[i].clone();
        let board = &name[1..3];
        let ch = u8::from_str_radix(&name[3..], 32).unwrap();
        let other_board = if board == "09" { "11" } else { "09" };
        let raw = wire_samples(ch, WIRE_NS, 0);
        let mut push = |what: &str, nm: String, d: Vec<u8>, fail: bool| {
            let mut b = base_banks.clone();
            b[i] = (nm, d);
            faults.push((format!("{what} ({name})"), b, fail));
        };
        push("wire name board != payload board", wire_bank_name(other_board, ch), data.clone(), true);
        push("wire name channel != payload channel", wire_bank_name(board, (ch + 1) % 32), data.clone(), true);
        push("wire payload of another board under this name", name.clone(), wire_packet(other_board, ch, &raw), true);
        push("wire payload of another channel under this name", name.clone(), wire_packet(board, (ch + 7) % 32, &raw), true);
        // BV channel inside a C bank
        let mut bv = data.clone();
        bv[5] = ch % 16;
        push("BV channel id in a wire bank", name.clone(), bv, true);
        let mut trunc = data.clone();
        trunc.pop();
        push("wire payload truncated by one byte", name.clone(), trunc, true);
        let mut badbl = data.clone();
        let n = badbl.len();
        badbl[n - 1] ^= 1;
        push("wire payload with wrong footer baseline", name.clone(), badbl, true);
        push("wire payload empty", name.clone(), vec![], true);
        // a data-less (16-byte suppressed) packet carries no waveform: channel stays empty, event is fine
        let mut w2 = base_w.clone();
        w2.retain(|(w, _)| Some(*w) != wire_slot(run_sim, board, ch));
        let mut b = base_banks.clone();
        b[i].1 = crate::props::c02::short_packet(0x2000, 0, 699);
        faults.push((format!("data-less ADC packet ({name}) [not a fault]"), b, false));
        let _ = w2;
    }
    for &i in &pad_idx {
        let (name, data) = base_banks[i].clone();
        let mut push = |what: &str, nm: String, d: Vec<u8>| {
            let mut b = base_banks.clone();
            b[i] = (nm, d);
            faults.push((format!("{what} (bank {i} {name})"), b, true));
        };
        push("pad bank name of another board", if name == "PC12" { "PC14".into() } else { "PC12".into() }, data.clone());
        let mut corrupt = data.clone();
        corrupt[22] ^= 0x10;
        push("pad chunk with a flipped payload bit", name.clone(), corrupt);
        let mut trunc = data.clone();
        trunc.truncate(data.len() - 4);
        push("pad chunk truncated by a word", name.clone(), trunc);
        push("pad bank empty", name.clone(), vec![]);
        // chunk of another chip mixed in: re-encode the header
        // (for a single-chunk message the statement names no rule that is broken by a chunk header
        // carrying another chip number than the packet inside it, so only multi-chunk messages are used)
        if name == "PC12" {
            let mut c = ref_chunk_decode(&data).unwrap();
            c.chip = (c.chip + 2) % 4;
            push("pad chunk of a 3-chunk message moved to another chip", name.clone(), ref_chunk_encode(&c));
        }
        let mut c = ref_chunk_decode(&data).unwrap();
        c.flags ^= 1;
        push("pad chunk with toggled end-of-message flag", name.clone(), ref_chunk_encode(&c));
        let mut c = ref_chunk_decode(&data).unwrap();
        c.chunk_id += 1;
        push("pad chunk with shifted chunk id", name.clone(), ref_chunk_encode(&c));
        // drop this chunk bank (of the multi-chunk message; dropping a whole message is not a fault)
        if name == "PC12" {
            let mut b = base_banks.clone();
            b.remove(i);
            faults.push((format!("pad chunk bank of a 3-chunk message missing (bank {i} {name})"), b, true));
        }
    }
    {
        // malformed PWB packet inside valid chunks: broken end marker
        let chans = vec![(20u16, pad_samples(20, PAD_NS as usize, 0))];
        let mut payload = pwb_payload("13", 1, PAD_NS, &chans);
        let n = payload.len();
        payload[n - 1] = 0;
        let mut b = base_banks.clone();
        let i = *pad_idx.last().unwrap();
        b[i] = pwb_banks("13", 1, &payload, 8192).pop().unwrap();
        faults.push(("PWB packet with broken end marker in CRC-valid chunk".into(), b, true));
        // board not installed for the simulation run map (run 5000 map): board 90 exists only from 10418
        let payload = pwb_payload("90", 0, PAD_NS, &chans);
        let mut b = base_banks.clone();
        b.extend(pwb_banks("90", 0, &payload, 8192));
        faults.push(("pad board not installed for this run (PC90 under the simulation map)".into(), b, true));
        // TRG faults
        let mut b = base_banks.clone();
        b.remove(0);
        faults.push(("TRG bank missing".into(), b, true));
        let mut b = base_banks.clone();
        b[0].1.pop();
        faults.push(("TRG payload one byte short".into(), b, true));
        let mut b = base_banks.clone();
        b[0].1[7] = 0x70;
        faults.push(("TRG payload with wrong header mark".into(), b, true));
    }
    let nf = faults.len() as u64;
    rep.run("inconsistency-replace", nf * 3, 120, true, "every single replacement fault (name/payload mismatch on board or channel, BV channel in a wire bank, malformed wire/pad/TRG payload, moved/toggled/shifted/missing chunk, board not installed, missing TRG) x {as is, bank list reversed, rotated by 4}", |idx, loc| {
        let (what, banks, fail) = &faults[(idx % nf) as usize];
        let mut banks = banks.clone();
        match idx / nf {
            1 => banks.reverse(),
            2 => {
                let k = 4 % banks.len();
                banks.rotate_left(k)
            }
            _ => {}
        }
        if *fail {
            judge(run_sim, &banks, 4242, None, json!({"fault": what, "order": idx / nf}), loc);
        } else {
            // not a fault: the event builds; only the affected wire is empty
            match build(run_sim, &banks) {
                Ok(Ok(_)) => loc.note(hash64(&(what, idx)), true, "built"),
                Ok(Err(e)) => loc.violation("event:consistent-event-rejected", json!({"case": what, "error": e})),
                Err(p) => loc.violation(format!("panic:event:{}", panic_site(&p)), json!({"case": what, "panic": p})),
            }
        }
    });
    // duplicates inserted at every position
    let dup_src: Vec<usize> = (0..base_banks.len()).filter(|&i| !matches!(&base_banks[i].0[..], "B093" | "TRBA" | "MCVX" | "B18F")).collect();
    let nd = dup_src.len() as u64;
    rep.run("inconsistency-duplicate", nd * (nb + 1), 120, true, "every wire / pad chunk / TRG bank duplicated, the copy inserted at every position of the bank list", |idx, loc| {
        let (src, pos) = (dup_src[(idx % nd) as usize], (idx / nd) as usize);
        let mut banks = base_banks.clone();
        banks.insert(pos, base_banks[src].clone());
        judge(run_sim, &banks, 4242, None, json!({"fault": "duplicate", "bank": base_banks[src].0, "inserted_at": pos}), loc);
    });
    // same wire twice with different content / under a second packet, different lengths
    rep.run("inconsistency-duplicate-wire-variants", 6 * 6 * 2, 120, true, "two banks for one wire: sample counts {64,100,101,150,697,700} x {64,100,101,150,697,700} x both orders", |idx, loc| {
        let ns = [64usize, 100, 101, 150, 697, 700];
        let d = unrank(idx, &[6, 6, 2]);
        let a = wire_packet("09", 0, &wire_samples(0, ns[d[0] as usize], 0));
        let b = wire_packet("09", 0, &wire_samples(0, ns[d[1] as usize], 4));
        let mut banks: Banks = vec![("ATAT".into(), trg_packet(1)), ("C090".into(), a), ("C090".into(), b)];
        if d[2] == 1 {
            banks.swap(1, 2);
        }
        judge(run_sim, &banks, 1, None, json!({"fault": "two banks for wire C090", "samples": [ns[d[0] as usize], ns[d[1] as usize]], "swapped": d[2] == 1}), loc);
    });
    // malformed block headers inside CRC-valid chunks: every block of a 4-channel message, odd and even sample counts
    {
        let devs: [(&str, i64); 7] = [("channel index +1", 1), ("channel index := 0", -1000), ("channel index := 80", 1000), ("channel index := that of the previous block", -2000), ("sample count +1", 2), ("sample count -1", -2), ("sample count := 0", 0)];
        rep.run("malformed-pad-blocks", 2 * 4 * devs.len() as u64, 120, true, "a 4-channel pad message with 130 / 131 requested samples: in each of the 4 blocks the channel index (+1, 0, 80, the previous block's) or the sample count (+1, -1, 0) is wrong; chunk CRCs are valid: the event is rejected", |idx, loc| {
            let d = unrank(idx, &[devs.len() as u64, 4, 2]);
            let req = 130 + d[2] as u16;
            let ros = [4u16, 17, 40, 79];
            let chans: Vec<(u16, Vec<i16>)> = ros.iter().map(|&ro| (ro, pad_samples(ro, req as usize, 0))).collect();
            let mut payload = pwb_payload("12", 2, req, &chans);
            let stride = 4 + 2 * req as usize + if req % 2 == 1 { 2 } else { 0 };
            let off = 52 + d[1] as usize * stride;
            let (what, dv) = devs[d[0] as usize];
            let cur_idx = u16::from_le_bytes([payload[off], payload[off + 1]]);
            match dv {
                1 => payload[off..off + 2].copy_from_slice(&(cur_idx + 1).to_le_bytes()),
                -1000 => payload[off..off + 2].copy_from_slice(&0u16.to_le_bytes()),
                1000 => payload[off..off + 2].copy_from_slice(&80u16.to_le_bytes()),
                -2000 => {
                    if d[1] == 0 {
                        return;
                    }
                    let prev = [payload[off - stride], payload[off - stride + 1]];
                    payload[off..off + 2].copy_from_slice(&prev);
                }
                2 => payload[off + 2..off + 4].copy_from_slice(&(req + 1).to_le_bytes()),
                -2 => payload[off + 2..off + 4].copy_from_slice(&(req - 1).to_le_bytes()),
                _ => payload[off + 2..off + 4].copy_from_slice(&0u16.to_le_bytes()),
            }
            let mut banks: Banks = vec![("ATAT".into(), trg_packet(88))];
            banks.extend(pwb_banks("12", 2, &payload, 8192));
            judge(run_sim, &banks, 88, None, json!({"fault": format!("pad block header: {what}"), "block": d[1], "requested_samples": req}), loc);
        });
    }
    // pad packets with different numbers of samples in one event (every pair out of 6 sample counts, two chips of
    // one board and chips of two boards): every pad gets its own waveform, cut at its own length
    {
        let counts = [101u16, 110, 131, 200, 300, 511];
        rep.run("pad-packets-of-different-lengths", 6 * 6 * 2, 120, true, "two pad messages in one event with requested_samples (a, b) over {101, 110, 131, 200, 300, 511}^2, on two chips of one board / on two boards", |idx, loc| {
            let d = unrank(idx, &[6, 6, 2]);
            let (na, nb) = (counts[d[0] as usize], counts[d[1] as usize]);
            let (b2, c2) = if d[2] == 0 { ("12", 3u8) } else { ("20", 1u8) };
            let ts = 9100 + idx as u32;
            let mut banks: Banks = vec![("ATAT".into(), trg_packet(ts))];
            let mut want = Vec::new();
            let mut ok = true;
            for (board, chip, n, pat) in [("12", 0u8, na, 0u64), (b2, c2, nb, 1)] {
                let chans: Vec<(u16, Vec<i16>)> = [4u16, 17, 40, 79].iter().map(|&ro| (ro, pad_samples(ro, n as usize, pat))).collect();
                banks.extend(pwb_banks(board, chip, &pwb_payload(board, chip, n, &chans), 8192));
                for (ro, raw) in &chans {
                    if let Some(RefPwbChan::Pad(ch)) = ref_readout_to_chan(*ro) {
                        match pad_slot(run_sim, board, chip, ch).and_then(|p| pad_cal(run_sim, p).map(|c| (p, c))) {
                            Some((p, (bl, g, dl))) => {
                                if let Some(s) = expected_signal(raw, bl, g, dl) {
                                    want.push((p, s));
                                }
                            }
                            None => ok = false,
                        }
                    }
                }
            }
            judge(run_sim, &banks, ts, if ok { Some((vec![], want)) } else { None }, json!({"two_pad_packets": [na, nb], "second": [b2, c2]}), loc);
        });
    }
    // a duplicate on every wire and on every chip (a "seen" set that does not cover the whole detector)
    rep.run("duplicate-on-every-element", (256 + 71 * 4) * 2, 120, true, "every one of the 256 wires: two full banks with different samples; every (board, chip) of the simulation run: two messages in different chunk groups whose packets name the same chip (same pads, different samples); both orders: the event is rejected", |idx, loc| {
        let (k, swapped) = (idx / 2, idx % 2 == 1);
        let mut banks: Banks = vec![("ATAT".into(), trg_packet(77))];
        let what;
        if k < 256 {
            let (board, ch) = (A16_BOARDS[(k / 32) as usize].0, (k % 32) as u8);
            banks.push((wire_bank_name(board, ch), wire_packet(board, ch, &wire_samples(ch, WIRE_NS, 0))));
            banks.push((wire_bank_name(board, ch), wire_packet(board, ch, &wire_samples(ch, WIRE_NS, 4))));
            what = json!({"fault": "two banks for one wire", "board": board, "channel": ch, "swapped": swapped});
        } else {
            let (bi, chip) = (((k - 256) / 4) as usize, ((k - 256) % 4) as u8);
            let board = PWB_BOARDS[bi].0;
            if pad_slot(run_sim, board, chip, 1).is_none() {
                return; // board not installed in the simulation run: rejected for another reason
            }
            for (j, other) in [chip, (chip + 1) % 4].into_iter().enumerate() {
                let chans: Vec<(u16, Vec<i16>)> = (1..=79u16).map(|ro| (ro, pad_samples(ro, PAD_NS as usize, j as u64))).collect();
                // chunk header names `other`, the packet inside names `chip`
                banks.extend(pwb_banks(board, other, &pwb_payload(board, chip, PAD_NS, &chans), 65535));
            }
            what = json!({"fault": "two messages for one chip", "board": board, "chip": chip, "swapped": swapped});
        }
        if swapped {
            let n = banks.len();
            banks.swap(1, n - 1);
        }
        judge(run_sim, &banks, 77, None, what, loc);
    });
    // ignored banks and reorderings do not change anything
    let extra: Banks = vec![("B09A".into(), vec![9; 40]), ("TRBA".into(), vec![]), ("MCVX".into(), vec![1; 100]), ("B100".into(), vec![])];
    rep.run("ignored-banks", (nb + 1) * extra.len() as u64 + nb, 120, true, "each ignored bank (BV, TRB3, MC vertex with arbitrary bytes) inserted at every position; every rotation of the base bank list: identical slots", |idx, loc| {
        let ne = (nb + 1) * extra.len() as u64;
        let mut banks = base_banks.clone();
        let what;
        if idx < ne {
            let (pos, k) = ((idx % (nb + 1)) as usize, (idx / (nb + 1)) as usize);
            banks.insert(pos, extra[k].clone());
            what = json!({"insert_ignored": extra[k].0, "at": pos});
        } else {
            let k = (idx - ne) as usize;
            banks.rotate_left(k);
            what = json!({"rotate": k});
        }
        judge(run_sim, &banks, 4242, Some((base_w.clone(), base_p.clone())), what, loc);
    });
    rep.finish()
}
