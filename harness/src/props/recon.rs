//! Shared generators for the reconstruction-stage checks C14, C15, C16.
use crate::core::*;
use alpha_g_physics::reconstruction::{cluster_spacepoints, find_vertices, Cluster, Track};
use alpha_g_physics::verif_hooks as vh;
use alpha_g_physics::SpacePoint;
use std::f64::consts::PI;
use uom::si::angle::radian;
use uom::si::f64::{Angle, Length};
use uom::si::length::meter;

pub fn sp(r: f64, phi: f64, z: f64) -> SpacePoint {
    SpacePoint { r: Length::new::<meter>(r), phi: Angle::new::<radian>(phi), z: Length::new::<meter>(z) }
}
pub fn sp_xy(x: f64, y: f64, z: f64) -> SpacePoint {
    sp(x.hypot(y), y.atan2(x), z)
}
pub fn bits3(p: &SpacePoint) -> [u64; 3] {
    [p.r.get::<meter>().to_bits(), p.phi.get::<radian>().to_bits(), p.z.get::<meter>().to_bits()]
}
pub fn xyz(p: &SpacePoint) -> [f64; 3] {
    [p.x().get::<meter>(), p.y().get::<meter>(), p.z.get::<meter>()]
}

/// points of an ideal track: circle of radius `rad` through the point `v` (near the axis) leaving
/// in direction `phi0`, `n` points with 0.11 <= r <= 0.18, slope `lambda` = dz/ds
pub fn ideal_track(v: [f64; 3], phi0: f64, rad: f64, charge: f64, lambda: f64, n: usize) -> Vec<SpacePoint> {
    let d = (phi0.cos(), phi0.sin());
    let nrm = (-d.1, d.0);
    let c = (v[0] + charge * rad * nrm.0, v[1] + charge * rad * nrm.1);
    let beta0 = (v[1] - c.1).atan2(v[0] - c.0);
    // arc lengths at which r crosses 0.11 and 0.18 (approximately r ~ s for large rad)
    let mut pts = Vec::new();
    let mut s = 0.0;
    let mut inside = Vec::new();
    while s < 0.5 {
        let a = beta0 + charge * s / rad;
        let (x, y) = (c.0 + rad * a.cos(), c.1 + rad * a.sin());
        let r = x.hypot(y);
        if r > 0.185 {
            break;
        }
        if r >= 0.11 {
            inside.push(s);
        }
        s += 0.0005;
    }
    if inside.is_empty() {
        return pts;
    }
    for i in 0..n {
        let s = inside[i * (inside.len() - 1) / (n - 1).max(1)];
        let a = beta0 + charge * s / rad;
        pts.push(sp_xy(c.0 + rad * a.cos(), c.1 + rad * a.sin(), v[2] + lambda * s));
    }
    pts
}

/// deterministic pseudo-random points in the drift volume (LCG; part of the enumeration, not a sampler)
pub fn cloud(n: usize, salt: u64) -> Vec<SpacePoint> {
    let mut x = 0x9E37_79B9_7F4A_7C15u64 ^ salt.wrapping_mul(0xD1B5_4A32_D192_ED03);
    let mut next = || {
        x = x.wrapping_mul(6364136223846793005).wrapping_add(1442695040888963407);
        ((x >> 11) as f64) / (1u64 << 53) as f64
    };
    (0..n).map(|_| sp(0.05 + 0.2 * next(), 2.0 * PI * next(), -1.3 + 2.6 * next())).collect()
}

pub const EPS: [f64; 18] = [0.0, 1e-18, 1e-17, 1e-16, 1e-15, 1e-14, 1e-13, 1e-12, 1e-11, 1e-10, 1e-9, 1e-8, 1e-7, 1e-6, 1e-5, 1e-4, 1e-3, 1e-2];
pub const PITCHES: [f64; 44] = {
    let mut p = [0.0; 44];
    let base = [5e-324, 1e-310, 1e-17, 1e-16, 1e-15, 1e-12, 1e-9, 1e-6, 1e-4, 1e-3, 1e-2, 3e-2, 1e-1, 3e-1, 1.0, 3.0, 10.0, 30.0, 1e2, 2.2e-16, 2.3e-16];
    let mut i = 0;
    while i < 21 {
        p[2 + 2 * i] = base[i];
        p[3 + 2 * i] = -base[i];
        i += 1;
    }
    // p[0] = 0.0, p[1] = -0.0
    p[1] = -0.0;
    p
};
pub const FAMILIES: u64 = 12;

/// degenerate geometry lattice: family x perturbation x way x orientation x size
pub fn degenerate(family: u64, eps: f64, way: u64, orient: u64, n: usize) -> Vec<SpacePoint> {
    let rot = orient as f64 * 2.0 * PI / 5.0 + 0.1;
    let pert = |i: usize, x: f64, y: f64| -> (f64, f64) {
        let s = if i % 2 == 0 { 1.0 } else { -1.0 };
        match way {
            0 => (x + eps * i as f64, y),
            1 => (x, y + eps * s),
            2 => {
                let r = x.hypot(y);
                let f = (r + eps * s) / r;
                (x * f, y * f)
            }
            _ => (x + eps * s, y - eps * s),
        }
    };
    let place = |i: usize, x: f64, y: f64, z: f64| -> SpacePoint {
        let (x, y) = pert(i, x, y);
        let (c, s) = (rot.cos(), rot.sin());
        sp_xy(c * x - s * y, s * x + c * y, z)
    };
    let t = |i: usize| i as f64 / (n - 1).max(1) as f64;
    (0..n)
        .map(|i| match family {
            0 => place(i, 0.11 + 0.07 * t(i), 0.0, 0.3 * t(i)),                       // radial line
            1 => place(i, 0.12, -0.09 + 0.18 * t(i), 0.1 + 0.2 * t(i)),               // chord / vertical line x = const
            2 => place(i, 0.13, 0.02, -1.0 + 2.0 * t(i)),                             // z-only variation
            3 => {
                // circle through the origin, radius 0.4
                let a = -PI / 2.0 + 0.28 + 0.2 * t(i);
                place(i, 0.4 * a.cos(), 0.4 + 0.4 * a.sin(), 0.5 * t(i))
            }
            4 => place(i, 0.15 * (0.6 * t(i)).cos(), 0.15 * (0.6 * t(i)).sin(), 0.05 * t(i)), // equal radii
            5 => place(0, 0.14, 0.01, 0.2),                                           // one point repeated n times
            6 => place(i % 2, if i % 2 == 0 { 0.12 } else { 0.17 }, 0.0, 0.1 * (i % 2) as f64), // two points repeated
            7 => {
                let k = i % 3;
                place(k, [0.11, 0.14, 0.18][k], [0.0, 0.012, 0.0][k], [0.0, 0.1, 0.2][k]) // three points + repeats
            }
            8 => place(i, (7 + i % 5) as f64 / 64.0, (i / 5 % 4) as f64 / 64.0, (i % 7) as f64 / 64.0), // dyadic grid
            9 => place(i, if i % 2 == 0 { 0.05 } else { 0.25 }, 0.001 * i as f64, 1.3 * (2.0 * t(i) - 1.0)), // radius extremes
            10 => {
                // helix with pitch from the PITCHES alphabet selected by `orient` and `way`
                let pitch = PITCHES[((orient * 4 + way) as usize * 5) % 44];
                let a = 0.5 * t(i);
                place(i, -0.5 + 0.64 * a.cos(), 0.64 * a.sin(), pitch * a / (2.0 * PI))
            }
            _ => cloud(n, orient * 31 + way)[i],
        })
        .collect()
}

pub fn template_tracks() -> Vec<Track> {
    let p = [
        [0.5, 0.0, 0.0, 0.5, PI, 0.3],                 // through the axis
        [-0.5, 0.0, 0.01, 0.5, 0.0, -0.3],             // back to back with the first
        [0.0, 0.7, 0.012, 0.7, -PI / 2.0, 0.0],        // zero pitch
        [0.5, 0.0, 0.0, 0.5, PI, 0.3],                 // identical to the first (ties in every sort)
        [1e3, 0.0, 0.3, 1e3 + 0.01, PI, 5e-324],       // huge radius, subnormal pitch
        [0.3, 0.3, -0.5, 0.45, -2.3, 40.0],            // passes 2.6 cm from the axis, large pitch
        [0.5, 0.0, 0.01, 0.44, PI, 0.3],               // misses the axis by 6 cm (beyond the 5.3 cm cut), same z as the first
    ];
    p.iter().map(|q| vh::track_from_params(*q, -0.35, -0.2)).collect()
}

pub fn fit(points: Vec<SpacePoint>) -> Result<Result<Track, String>, String> {
    guard(|| Track::try_from(vh::cluster_from_points(points)).map_err(|e| e.to_string()))
}
pub fn cluster(points: Vec<SpacePoint>) -> Result<(Vec<Cluster>, Vec<SpacePoint>), String> {
    guard(|| {
        let r = cluster_spacepoints(points);
        (r.clusters, r.remainder)
    })
}
pub fn vertices(tracks: Vec<Track>) -> Result<alpha_g_physics::reconstruction::VertexingResult, String> {
    guard(|| find_vertices(tracks))
}

pub fn track_finite(t: &Track) -> Result<(), String> {
    let p = vh::track_params(t);
    if p.iter().any(|x| !x.is_finite()) {
        return Err(format!("non-finite helix parameters {p:?}"));
    }
    for (name, v) in [("t_inner", t.t_inner()), ("t_outer", t.t_outer())] {
        if !(v >= -PI && v <= PI) {
            return Err(format!("{name} = {v} outside [-pi, pi]"));
        }
    }
    for tt in [-PI, 0.0, PI] {
        let c = t.at(tt);
        if ![c.x, c.y, c.z].iter().all(|l| l.get::<meter>().is_finite()) {
            return Err(format!("Track::at({tt}) is not finite"));
        }
    }
    Ok(())
}

/// all multisets of size 0..=max over `k` templates, by index
pub fn multisets(k: usize, max: usize) -> Vec<Vec<usize>> {
    let mut out = vec![vec![]];
    let mut cur: Vec<Vec<usize>> = vec![vec![]];
    for _ in 0..max {
        let mut next = Vec::new();
        for m in &cur {
            let lo = m.last().copied().unwrap_or(0);
            for t in lo..k {
                let mut n = m.clone();
                n.push(t);
                next.push(n);
            }
        }
        out.extend(next.iter().cloned());
        cur = next;
    }
    out
}

pub fn dist_track_point(t: &Track, tt: f64, p: [f64; 3]) -> f64 {
    let c = t.at(tt);
    let (x, y, z) = (c.x.get::<meter>() - p[0], c.y.get::<meter>() - p[1], c.z.get::<meter>() - p[2]);
    (x * x + y * y + z * z).sqrt()
}

/// brute-force global minimum of the distance over t in [-pi, pi]: grid + golden-section refinement
pub fn brute_min(t: &Track, p: [f64; 3], grid: usize) -> (f64, f64) {
    let f = |x: f64| dist_track_point(t, x, p);
    let mut best = (f64::INFINITY, 0.0);
    let mut vals = Vec::with_capacity(grid + 1);
    for i in 0..=grid {
        let x = -PI + 2.0 * PI * i as f64 / grid as f64;
        let v = f(x);
        vals.push(v);
        if v < best.0 {
            best = (v, x);
        }
    }
    // refine around every grid point that is a local minimum and close to the best
    let h = 2.0 * PI / grid as f64;
    let mut out = best;
    for i in 0..=grid {
        let l = if i > 0 { vals[i - 1] } else { f64::INFINITY };
        let r = if i < grid { vals[i + 1] } else { f64::INFINITY };
        if vals[i] <= l && vals[i] <= r && vals[i] <= best.0 + 1e-3 {
            let x0 = -PI + h * i as f64;
            let (mut a, mut b) = ((x0 - h).max(-PI), (x0 + h).min(PI));
            let g = 0.618_033_988_749_894_9;
            let (mut c, mut d) = (b - g * (b - a), a + g * (b - a));
            let (mut fc, mut fd) = (f(c), f(d));
            for _ in 0..60 {
                if fc < fd {
                    b = d;
                    d = c;
                    fd = fc;
                    c = b - g * (b - a);
                    fc = f(c);
                } else {
                    a = c;
                    c = d;
                    fc = fd;
                    d = a + g * (b - a);
                    fd = f(d);
                }
            }
            let (v, x) = if fc < fd { (fc, c) } else { (fd, d) };
            if v < out.0 {
                out = (v, x);
            }
        }
    }
    out
}
