//! Shared helpers for the event-level checks (C09..C13, C17).
use crate::core::*;
use crate::refmodel::sim::*;
use alpha_g_physics::{Avalanche, MainEvent};
use uom::si::angle::radian;
use uom::si::length::meter;
use uom::si::time::second;

pub type Banks = Vec<(String, Vec<u8>)>;

/// Build an event; outer Err = panic, inner Err = typed error (Display + Debug).
pub fn build(run: u32, banks: &Banks) -> Result<Result<Box<MainEvent>, String>, String> {
    guard(|| MainEvent::try_from_banks(run, banks.iter().map(|(n, d)| (n.as_str(), &d[..]))).map(Box::new).map_err(|e| format!("{e} [{e:?}]")))
}

#[derive(Clone, Debug, PartialEq, Eq, Hash)]
pub struct Fp {
    pub timestamp: u32,
    /// (t, phi, z, wire amplitude, pad amplitude) bit patterns, in output order
    pub avalanches: Vec<[u64; 5]>,
    pub vertex: Option<[u64; 3]>,
}

pub fn av_bits(a: &Avalanche) -> [u64; 5] {
    [a.t.get::<second>().to_bits(), a.phi.get::<radian>().to_bits(), a.z.get::<meter>().to_bits(), a.wire_amplitude.to_bits(), a.pad_amplitude.to_bits()]
}

/// Full observable result of an event (timestamp, avalanches, vertex), bit for bit.
pub fn fingerprint(ev: &MainEvent, with_vertex: bool) -> Result<Fp, String> {
    guard(|| Fp {
        timestamp: ev.timestamp(),
        avalanches: ev.avalanches().iter().map(av_bits).collect(),
        vertex: if with_vertex { ev.vertex().map(|v| [v.x.get::<meter>().to_bits(), v.y.get::<meter>().to_bits(), v.z.get::<meter>().to_bits()]) } else { None },
    })
}

/// A wire bank with `n` samples following `pattern` around the simulation baseline.
pub fn wire_samples(ch: u8, n: usize, pattern: u64) -> Vec<i16> {
    (0..n)
        .map(|i| match pattern {
            0 => WIRE_BASELINE - 500 + 37 * ch as i16 + 3 * (i as i16 % 200),
            1 => if i % 7 == 3 { i16::MIN } else if i % 7 == 5 { 32764 } else { WIRE_BASELINE + ch as i16 },
            2 => i16::MIN,
            3 => i16::MAX,
            // flat negative pedestals: the sum of the first 64 samples is a negative exact multiple of 64
            5 => -8,
            6 => -2048,
            _ => WIRE_BASELINE,
        })
        .collect()
}

pub fn pad_samples(ro: u16, n: usize, pattern: u64) -> Vec<i16> {
    (0..n)
        .map(|i| match pattern {
            0 => PAD_BASELINE - 300 + 11 * ro as i16 + 2 * (i as i16 % 100),
            1 => if i % 5 == 1 { -2048 } else if i % 5 == 3 { 2047 } else { PAD_BASELINE },
            2 => i16::MIN,
            3 => i16::MAX,
            _ => PAD_BASELINE,
        })
        .collect()
}

/// A response-shaped wire pulse (negative going) of amplitude `amp` starting at `bin`
pub fn add_wire_pulse(sig: &mut [f64], bin: usize, amp: f64) {
    for (k, r) in maps().wire_resp.iter().enumerate() {
        if bin + k < sig.len() {
            sig[bin + k] += amp * r;
        }
    }
}
pub fn add_pad_pulse(sig: &mut [f64], bin: usize, amp: f64) {
    for (k, r) in maps().pad_resp.iter().enumerate() {
        if bin + k < sig.len() {
            sig[bin + k] += amp * r;
        }
    }
}
