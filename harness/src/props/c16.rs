//! C16 — reported track parameters are true closest-approach parameters.
use crate::core::*;
use crate::props::c02::panic_site;
use crate::props::recon::*;
use crate::Args;
use alpha_g_physics::reconstruction::Track;
use alpha_g_physics::verif_hooks as vh;
use serde_json::json;
use std::f64::consts::PI;
use uom::si::length::meter;

const GRID: usize = 20000;

/// the reported t must be in [-pi, pi], not NaN, and, if strictly inside, a global minimiser (1e-9 m)
fn judge_t(track: &Track, p: [f64; 3], t: f64, key: &str, what: serde_json::Value, loc: &mut Local) {
    if t.is_nan() || !(-PI..=PI).contains(&t) {
        loc.violation(format!("{key}:t-out-of-range-or-nan"), json!({"case": what, "t": t}));
        return;
    }
    if t > -PI && t < PI {
        let d = dist_track_point(track, t, p);
        let (best, at) = brute_min(track, p, GRID);
        if !(d <= best + 1e-9) {
            loc.violation(format!("{key}:t-is-not-the-closest-approach"), json!({"case": what, "reported_t": t, "distance_at_reported_t": d, "better_t": at, "distance_there": best}));
        }
        loc.count("interior_results_checked_against_brute_force", 1);
    } else {
        loc.count("results_at_the_end_of_the_revolution", 1);
    }
}

pub fn run(args: &Args) -> i32 {
    let rep = super::report(args, "exploration");
    rep.set_rule("every case = one (helix, point) pair: the t reported by the library (through the cfg-guarded closest_t entry with the library's own tolerance f64::EPSILON and 20 iterations; and hook-free through Track::t_inner/t_outer and VertexInfo.tracks) is compared with a brute-force global minimum of the distance over a 20001-point grid of [-pi, pi] refined by golden-section search; non-trivial = the reported t is strictly inside (-pi, pi); distinct by hash of the parameter bit patterns");
    rep.assume("decided on the lattice only: centre in {0, +-0.05, +-0.3, +-1, +-3}^2, radius {0.03, 0.1, 0.5, 1, 5}, 8 phases, 44 pitches (0, -0, +-subnormal, +-1e-17..+-1e2, values around f64::EPSILON), points in the drift volume and within 1 cm of the helix");
    let thorough = args.tier == Tier::Thorough;
    let centres = [0.0, 0.05, -0.05, 0.3, -0.3, 1.0, -1.0, 3.0, -3.0];
    let radii = [0.03, 0.1, 0.5, 1.0, 5.0];
    let nc = if thorough { 9 } else { 5 };
    // points: 3 radii x 6 azimuths x 5 z in the drift volume + 18 near the helix
    let vol: Vec<[f64; 3]> = {
        let mut v = Vec::new();
        for r in [0.11, 0.15, 0.19] {
            for a in 0..6 {
                for z in [-1.1, -0.4, 0.0, 0.3, 1.15] {
                    let phi = a as f64 * PI / 3.0 + 0.2;
                    v.push([r * phi.cos(), r * phi.sin(), z]);
                }
            }
        }
        v
    };
    let npts = vol.len() as u64 + 18;
    let pstep = if thorough { 1 } else { 5 };
    let radices = [npts.div_ceil(pstep), 44, 8, 5, nc, nc];
    rep.run("helix-x-point-lattice", product(&radices), 300, true, "centre (x0, y0) x radius x phase (8) x pitch (44) x point (90 in the drift volume + 18 on / within 1 cm of the helix; quick: every 5th)", |idx, loc| {
        let d = unrank(idx, &radices);
        let (x0, y0) = (centres[d[5] as usize], centres[d[4] as usize]);
        let r = radii[d[3] as usize];
        let phi0 = -PI + (d[2] as f64 + 0.37) * PI / 4.0;
        let h = PITCHES[d[1] as usize];
        let z0 = 0.1;
        let track = vh::track_from_params([x0, y0, z0, r, phi0, h], 0.0, 0.0);
        let pi = (d[0] * pstep + (d[1] + d[2]) % pstep) as usize;
        let p: [f64; 3] = if pi < vol.len() {
            vol[pi]
        } else {
            // on / near the helix at 6 parameter values x 3 offsets
            let k = (pi - vol.len()) % 18;
            let tt = -2.9 + (k % 6) as f64 * 1.1;
            let c = track.at(tt);
            let off = [0.0, 0.003, -0.01][k / 6];
            [c.x.get::<meter>() + off, c.y.get::<meter>() - off * 0.5, c.z.get::<meter>() + off * 0.3]
        };
        let what = json!({"helix": {"x0": x0, "y0": y0, "z0": z0, "r": r, "phi0": phi0, "h": h}, "point": p});
        let hsh = hash64(&[x0.to_bits(), y0.to_bits(), r.to_bits(), phi0.to_bits(), h.to_bits(), p[0].to_bits(), p[1].to_bits(), p[2].to_bits()]);
        let spt = sp_xy(p[0], p[1], p[2]);
        // the SpacePoint's own x/y (r cos phi) are what the library sees
        let pp = xyz(&spt);
        match guard(|| vh::closest_t(&track, spt, f64::EPSILON, 20)) {
            Err(pn) => {
                loc.note(hsh, true, "panic");
                loc.violation(format!("panic:closest-t:{}", panic_site(&pn)), json!({"case": what, "panic": pn}));
            }
            Ok(t) => {
                loc.note(hsh, t > -PI && t < PI, if t > -PI && t < PI { "interior" } else { "clamped" });
                judge_t(&track, pp, t, "closest-t", what.clone(), loc);
                if loc.want_sample() {
                    loc.sample(json!({"case": what, "t": t}));
                }
            }
        }
    });

    // flat tracks across the atan2 branch cut (zero / tiny pitch)
    rep.run("flat-tracks-branch-cut", 12 * 16 * 16, 300, true, "pitch in {0, -0, +-5e-324, +-1e-310, +-1e-17, +-2.2e-16, +-2.3e-16} x phi0 on a 16-point circle incl. +-pi x point azimuth (seen from the centre) on a 16-point circle", |idx, loc| {
        let d = unrank(idx, &[12, 16, 16]);
        let h = [0.0, -0.0, 5e-324, -5e-324, 1e-310, -1e-310, 1e-17, -1e-17, 2.2e-16, -2.2e-16, 2.3e-16, -2.3e-16][d[0] as usize];
        let phi0 = -PI + d[1] as f64 * PI / 8.0;
        let a = -PI + (d[2] as f64 + 0.5) * PI / 8.0;
        let (x0, y0, r) = (0.4, -0.1, 0.45);
        let track = vh::track_from_params([x0, y0, 0.2, r, phi0, h], 0.0, 0.0);
        let spt = sp_xy(x0 + 0.47 * a.cos(), y0 + 0.47 * a.sin(), 0.2);
        let what = json!({"helix": {"x0": x0, "y0": y0, "r": r, "phi0": phi0, "h": h}, "point_azimuth_from_centre": a});
        match guard(|| vh::closest_t(&track, spt, f64::EPSILON, 20)) {
            Err(pn) => loc.violation(format!("panic:closest-t:{}", panic_site(&pn)), json!({"case": what, "panic": pn})),
            Ok(t) => {
                loc.note(hash64(&(idx, 3u8)), t > -PI && t < PI, "evaluated");
                judge_t(&track, xyz(&spt), t, "closest-t", what, loc);
            }
        }
    });

    // hook-free: t_inner / t_outer of fitted tracks, and the per-track t of primary vertices
    let vx = [[0.0, 0.0], [0.012, -0.02], [-0.03, 0.01], [0.02, 0.02]];
    rep.run("fitted-tracks-and-vertices", 4 * 9 * 5 * 2, 600, true, "vertex position (4, on and off the axis and the x = y diagonal) x z (9) x pitch class (5: 0, tiny, small, medium, large) x {exact helix points, points displaced by 2 mm in z and 0.5 mm in r}: 3 tracks are fitted (Track::try_from), t_inner / t_outer are judged against the innermost / outermost point of the cluster, find_vertices' per-track t against the reported vertex position", |idx, loc| {
        let d = unrank(idx, &[4, 9, 5, 2]);
        let noisy = d[3] == 1;
        let v = [vx[d[0] as usize][0], vx[d[0] as usize][1], -0.8 + 0.2 * d[1] as f64];
        let lambda = [0.0, 1e-12, 0.02, 0.3, 0.8][d[2] as usize];
        let mut tracks = Vec::new();
        for j in 0..3 {
            let pts = ideal_track(v, 0.3 + 2.0 * j as f64 + 0.1 * d[0] as f64, [0.5, 1.1, 2.5][j], if j == 1 { -1.0 } else { 1.0 }, lambda * if j == 2 { -1.0 } else { 1.0 }, 22);
            if pts.len() < 13 {
                continue;
            }
            // noisy variant: the end points do not sit on the fitted helix (2 mm in z, 0.5 mm in r, fixed pattern)
            let pts: Vec<_> = if noisy { pts.iter().enumerate().map(|(i, p)| sp(p.r.value + 0.0005 * ((i * 7) % 3) as f64 - 0.0005, p.phi.value, p.z.value + if i % 2 == 0 { 0.002 } else { -0.002 })).collect() } else { pts };
            let inner = pts.iter().min_by(|a, b| a.r.partial_cmp(&b.r).unwrap()).copied().unwrap();
            let outer = pts.iter().max_by(|a, b| a.r.partial_cmp(&b.r).unwrap()).copied().unwrap();
            match fit(pts) {
                Err(p) => loc.violation(format!("panic:track-fit:{}", panic_site(&p)), json!({"vertex": v, "track": j, "panic": p})),
                Ok(Err(_)) => {}
                Ok(Ok(t)) => {
                    judge_t(&t, xyz(&inner), t.t_inner(), "t-inner", json!({"vertex": v, "slope": lambda, "track": j}), loc);
                    judge_t(&t, xyz(&outer), t.t_outer(), "t-outer", json!({"vertex": v, "slope": lambda, "track": j}), loc);
                    tracks.push(t);
                }
            }
        }
        loc.note(hash64(&(idx, 4u8)), tracks.len() >= 2, "evaluated");
        match vertices(tracks) {
            Err(p) => loc.violation(format!("panic:find-vertices:{}", panic_site(&p)), json!({"vertex": v, "panic": p})),
            Ok(r) => {
                if let Some(pv) = r.primary {
                    let pos = [pv.position.x.get::<meter>(), pv.position.y.get::<meter>(), pv.position.z.get::<meter>()];
                    loc.count("primary_vertices", 1);
                    for (j, (t, tt)) in pv.tracks.iter().enumerate() {
                        // the library measures from the SpacePoint (r, phi, z) of the position
                        let spt = sp_xy(pos[0], pos[1], pos[2]);
                        judge_t(t, xyz(&spt), *tt, "vertex-track-t", json!({"true_vertex": v, "reported_vertex": pos, "slope": lambda, "track": j}), loc);
                    }
                }
            }
        }
    });
    // chains of steep, tightly curled tracks that cross the axis a few centimetres apart in z: one primary vertex that
    // is several centimetres away from most of its tracks (the closest-approach iteration has real work to do)
    rep.run("vertex-chains", 3 * 4 * 2 * 2, 600, true, "3 or 6 tracks through the axis, curvature radius {0.12, 0.15, 0.3} m x pitch {0.5, 1, -1, 2} m per turn x crossing points {2, 3.3} cm apart in z: per-track t of the primary vertex against the reported position", |idx, loc| {
        let d = unrank(idx, &[3, 4, 2, 2]);
        let rad = [0.12, 0.15, 0.3][d[0] as usize];
        let h = [0.5, 1.0, -1.0, 2.0][d[1] as usize];
        let dz = [0.02, 0.033][d[2] as usize];
        let nt = [3usize, 6][d[3] as usize];
        let tracks: Vec<Track> = (0..nt).map(|k| {
            let a = 0.4 + 1.0 * k as f64;
            vh::track_from_params([rad * a.cos(), rad * a.sin(), -0.1 + dz * k as f64, rad, a + PI, if k % 2 == 0 { h } else { -h }], -0.6, -0.3)
        }).collect();
        loc.note(hash64(&(idx, 7u8)), true, "evaluated");
        match vertices(tracks) {
            Err(p) => loc.violation(format!("panic:find-vertices:{}", panic_site(&p)), json!({"chain": [rad, h, dz], "panic": p})),
            Ok(r) => {
                if let Some(pv) = r.primary {
                    let pos = [pv.position.x.get::<meter>(), pv.position.y.get::<meter>(), pv.position.z.get::<meter>()];
                    loc.count("chain_vertices", 1);
                    loc.count("chain_vertex_tracks", pv.tracks.len() as u64);
                    for (j, (t, tt)) in pv.tracks.iter().enumerate() {
                        let spt = sp_xy(pos[0], pos[1], pos[2]);
                        judge_t(t, xyz(&spt), *tt, "vertex-track-t", json!({"chain": {"radius": rad, "pitch": h, "dz": dz, "tracks": nt}, "reported_vertex": pos, "track": j}), loc);
                    }
                }
            }
        }
    });
    // clusters of many distinct points (a fit that thins or truncates large clusters may lose the end points)
    let big_n = [64usize, 255, 256, 257, 368, 513, 1000];
    rep.run("large-clusters", big_n.len() as u64 * 3 * 3 * 2, 600, true, "tracks of {64, 255, 256, 257, 368, 513, 1000} distinct points x curvature radius (3) x pitch (0, 0.3, -0.8) x {exact, displaced by 2 mm in z / 0.5 mm in r}: t_inner / t_outer against the innermost / outermost point of the cluster", |idx, loc| {
        let d = unrank(idx, &[big_n.len() as u64, 3, 3, 2]);
        let n = big_n[d[0] as usize];
        let rad = [0.4, 1.1, 2.5][d[1] as usize];
        let lambda = [0.0, 0.3, -0.8][d[2] as usize];
        let noisy = d[3] == 1;
        let v = [0.002, -0.001, 0.1];
        // n distinct points: the 22-point ideal track gives the arc range, which is then re-sampled evenly in the bending angle
        let ends = ideal_track(v, 0.7, rad, 1.0, lambda, 22);
        if ends.len() < 2 {
            return;
        }
        let (p0, p1) = (xyz(&ends[0]), xyz(ends.last().unwrap()));
        let c = (v[0] - rad * (0.7f64).sin(), v[1] + rad * (0.7f64).cos());
        let (a0, a1) = ((p0[1] - c.1).atan2(p0[0] - c.0), (p1[1] - c.1).atan2(p1[0] - c.0));
        let pts: Vec<_> = (0..n).map(|i| {
            let f = i as f64 / (n - 1) as f64;
            let a = a0 + f * (a1 - a0);
            let z = p0[2] + f * (p1[2] - p0[2]);
            let (x, y) = (c.0 + rad * a.cos(), c.1 + rad * a.sin());
            if noisy { sp_xy(x * (1.0 + 0.003 * (((i * 7) % 3) as f64 - 1.0)), y * (1.0 + 0.003 * (((i * 7) % 3) as f64 - 1.0)), z + if i % 2 == 0 { 0.002 } else { -0.002 }) } else { sp_xy(x, y, z) }
        }).collect();
        let inner = pts.iter().min_by(|a, b| a.r.partial_cmp(&b.r).unwrap()).copied().unwrap();
        let outer = pts.iter().max_by(|a, b| a.r.partial_cmp(&b.r).unwrap()).copied().unwrap();
        loc.note(hash64(&(idx, 6u8)), true, "evaluated");
        match fit(pts) {
            Err(p) => loc.violation(format!("panic:track-fit:{}", panic_site(&p)), json!({"points": n, "panic": p})),
            Ok(Err(_)) => loc.count("large_clusters_without_fit", 1),
            Ok(Ok(t)) => {
                judge_t(&t, xyz(&inner), t.t_inner(), "t-inner", json!({"points": n, "radius": rad, "slope": lambda, "noisy": noisy}), loc);
                judge_t(&t, xyz(&outer), t.t_outer(), "t-outer", json!({"points": n, "radius": rad, "slope": lambda, "noisy": noisy}), loc);
            }
        }
    });
    // template track multisets: per-track t of the primary vertex
    let ms = multisets(7, if thorough { 5 } else { 3 });
    rep.run("template-vertices", ms.len() as u64, 600, true, "multisets of template tracks (through the axis, back to back, zero pitch, identical copy, huge radius with subnormal pitch, off axis with large pitch): per-track t of the primary vertex", |idx, loc| {
        let t = template_tracks();
        let set: Vec<Track> = ms[idx as usize].iter().map(|&i| t[i]).collect();
        loc.note(hash64(&(ms[idx as usize].clone(), 5u8)), set.len() >= 2, "evaluated");
        if let Ok(r) = vertices(set) {
            if let Some(pv) = r.primary {
                let pos = [pv.position.x.get::<meter>(), pv.position.y.get::<meter>(), pv.position.z.get::<meter>()];
                for (t, tt) in &pv.tracks {
                    judge_t(t, xyz(&sp_xy(pos[0], pos[1], pos[2])), *tt, "vertex-track-t", json!({"templates": ms[idx as usize], "reported_vertex": pos}), loc);
                }
            }
        }
    });
    rep.finish()
}
