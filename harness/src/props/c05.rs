//! C05 — PWB packet decoding is exact and every sent channel has its full waveform.
use crate::core::*;
use crate::props::c02::panic_site;
use crate::refmodel::tables::PWB_BOARDS;
use crate::refmodel::*;
use crate::Args;
use alpha_g_detector::padwing::{AfterId, ChannelId, Compression, FpnChannelId, PadChannelId, PwbPacket, PwbV2Packet, ResetChannelId, Trigger};
use serde_json::json;

pub fn real_chan(c: RefPwbChan) -> ChannelId {
    match c {
        RefPwbChan::Reset(n) => ChannelId::Reset(ResetChannelId::try_from(n).expect("reset id")),
        RefPwbChan::Fpn(n) => ChannelId::Fpn(FpnChannelId::try_from(n).expect("fpn id")),
        RefPwbChan::Pad(n) => ChannelId::Pad(PadChannelId::try_from(n).expect("pad id")),
    }
}

fn extract(p: &PwbV2Packet) -> Result<RefPwb, String> {
    // channel lists -> masks through the independently typed readout table
    let to_mask = |list: &[ChannelId]| -> Result<(u128, Vec<u16>), String> {
        let mut mask = 0u128;
        let mut order = Vec::new();
        for c in list {
            let ro = (1..=79u16).find(|&ro| real_chan(ref_readout_to_chan(ro).unwrap()) == *c).ok_or(format!("channel {c:?} is not in the readout table"))?;
            if mask >> (ro - 1) & 1 == 1 {
                return Err(format!("channel {c:?} listed twice"));
            }
            mask |= 1 << (ro - 1);
            order.push(ro);
        }
        Ok((mask, order))
    };
    let (sent_mask, sent_order) = to_mask(p.channels_sent())?;
    let (threshold_mask, thr_order) = to_mask(p.channels_over_threshold())?;
    if sent_order.windows(2).any(|w| w[0] >= w[1]) || thr_order.windows(2).any(|w| w[0] >= w[1]) {
        return Err("channel list not in ascending readout order".into());
    }
    let mut channels = Vec::new();
    for ro in 1..=79u16 {
        let c = real_chan(ref_readout_to_chan(ro).unwrap());
        match p.waveform_at(c) {
            Some(w) => {
                if sent_mask >> (ro - 1) & 1 == 0 {
                    return Err(format!("waveform_at returns data for readout {ro} which was not sent"));
                }
                channels.push((ro, w.to_vec()));
            }
            None => {
                if sent_mask >> (ro - 1) & 1 == 1 {
                    return Err(format!("waveform_at returns None for sent readout {ro}"));
                }
            }
        }
    }
    Ok(RefPwb {
        chip: match p.after_id() {
            AfterId::A => b'A',
            AfterId::B => b'B',
            AfterId::C => b'C',
            AfterId::D => b'D',
        },
        compression: match p.compression() {
            Compression::Raw => 0,
        },
        trigger_source: match p.trigger_source() {
            Trigger::External => 0,
            Trigger::Manual => 1,
            Trigger::InternalPulse => 3,
        },
        mac: p.board_id().mac_address(),
        trigger_delay: p.trigger_delay(),
        trigger_timestamp: p.trigger_timestamp(),
        last_sca_cell: p.last_sca_cell(),
        requested: u16::try_from(p.requested_samples()).map_err(|_| "requested_samples > u16")?,
        sent_mask,
        threshold_mask,
        event_counter: p.event_counter(),
        fifo_max_depth: p.fifo_max_depth(),
        write_depth: p.event_descriptor_write_depth(),
        read_depth: p.event_descriptor_read_depth(),
        channels,
    })
}

pub fn check_pwb(b: &[u8], loc: &mut Local, strict: bool) {
    let h = hash64(b);
    let nontrivial = b.len() >= 56 && b[0] == 2;
    let real = match guard(|| PwbV2Packet::try_from(b)) {
        Ok(r) => r,
        Err(p) => {
            loc.note(h, nontrivial, "panic");
            loc.violation(format!("panic:pwb:{}", panic_site(&p)), json!({"input": hex(b), "len": b.len(), "panic": p}));
            return;
        }
    };
    loc.note(h, nontrivial, if real.is_ok() { "accept" } else { "reject" });
    // the wrapper enum is an entry point of its own: it must return, and agree on accept / reject, for every input
    match guard(|| PwbPacket::try_from(b).is_ok()) {
        Err(p) => loc.violation(format!("panic:pwb-wrapper:{}", panic_site(&p)), json!({"input": hex(b), "len": b.len(), "panic": p})),
        Ok(w) => {
            if strict && w != real.is_ok() {
                loc.violation("pwb:wrapper-disagrees", json!({"input": hex(b), "len": b.len(), "wrapper_accepts": w}));
            }
        }
    }
    let rf = if strict { ref_pwb_decode(b) } else { None };
    match &real {
        Ok(p) => {
            let r = guard(|| {
                let _ = format!("{p}");
                let w = PwbPacket::try_from(b).map_err(|e| format!("wrapper rejects: {e}"))?;
                let _ = format!("{w}");
                if w.packet_version() != 2 || !w.is_v2() || w.requested_samples() != p.requested_samples() || w.channels_sent() != p.channels_sent()
                    || w.channels_over_threshold() != p.channels_over_threshold() || w.event_counter() != Some(p.event_counter()) || w.fifo_max_depth() != Some(p.fifo_max_depth())
                    || w.board_id() != p.board_id() || w.after_id() != p.after_id() || w.trigger_delay() != p.trigger_delay() || w.trigger_timestamp() != p.trigger_timestamp()
                    || w.last_sca_cell() != p.last_sca_cell() || w.event_descriptor_read_depth() != Some(p.event_descriptor_read_depth()) || w.event_descriptor_write_depth() != Some(p.event_descriptor_write_depth())
                {
                    return Err("PwbPacket wrapper differs from PwbV2Packet".to_string());
                }
                for ro in 1..=79u16 {
                    let c = real_chan(ref_readout_to_chan(ro).unwrap());
                    if w.waveform_at(c) != p.waveform_at(c) {
                        return Err("PwbPacket::waveform_at differs from PwbV2Packet".to_string());
                    }
                }
                extract(p)
            });
            match r {
                Err(pm) => loc.violation(format!("panic:pwb-accessor:{}", panic_site(&pm)), json!({"input": hex(b), "panic": pm})),
                Ok(Err(e)) => {
                    if strict {
                        loc.violation("pwb:accessor-inconsistent", json!({"input": hex(b), "what": e}))
                    }
                }
                Ok(Ok(got)) => {
                    if strict {
                        match &rf {
                            None => loc.violation("pwb:accepts-malformed", json!({"input": hex(b), "len": b.len()})),
                            Some(r) => {
                                if got.channels != r.channels {
                                    loc.violation("pwb:waveform-mismatch", json!({"input": hex(b), "requested": r.requested, "sent": mask_to_readouts(r.sent_mask)}));
                                } else if &got != r {
                                    loc.violation("pwb:accessor-mismatch", json!({"input": hex(b), "real": format!("{:?}", strip(&got)), "reference": format!("{:?}", strip(r))}));
                                } else if ref_pwb_encode(&got) != b {
                                    loc.violation("pwb:reencode-mismatch", json!({"input": hex(b)}));
                                }
                            }
                        }
                    }
                }
            }
        }
        Err(e) => {
            if strict && rf.is_some() {
                loc.violation("pwb:rejects-wellformed", json!({"input": hex(b), "len": b.len(), "error": e.to_string()}));
            }
        }
    }
    if loc.want_sample() {
        loc.sample(json!({"len": b.len(), "input": hex(&b[..b.len().min(56)]), "accepted": real.is_ok()}));
    }
}

fn strip(r: &RefPwb) -> RefPwb {
    let mut r = r.clone();
    r.channels.clear();
    r
}

pub fn wf(ro: u16, n: usize, kind: u64) -> Vec<i16> {
    (0..n)
        .map(|i| match kind {
            0 => (ro as i16) * 100 + i as i16,
            1 => if i % 2 == 0 { i16::MIN } else { i16::MAX },
            2 => -((ro as i16) * 7 + i as i16),
            // looks like an end marker / channel header inside the data
            _ => if i % 3 == 0 { 0xCCCCu16 as i16 } else { ro as i16 },
        })
        .collect()
}

pub fn mk_pwb(board: usize, chip: u8, requested: u16, readouts: &[u16], thr: u128, kind: u64) -> RefPwb {
    let mut sent = 0u128;
    for r in readouts {
        sent |= 1 << (r - 1);
    }
    RefPwb {
        chip: b'A' + chip,
        compression: 0,
        trigger_source: [0, 1, 3][board % 3],
        mac: PWB_BOARDS[board % 71].1,
        trigger_delay: 0x1122,
        trigger_timestamp: 0x0000_A1B2_C3D4_E5F6,
        last_sca_cell: 300,
        requested,
        sent_mask: sent,
        threshold_mask: thr,
        event_counter: 0xDEAD_0001,
        fifo_max_depth: 0x0A0B,
        write_depth: 3,
        read_depth: 4,
        channels: readouts.iter().map(|&r| (r, wf(r, requested as usize, kind))).collect(),
    }
}

pub fn run(args: &Args) -> i32 {
    let rep = super::report(args, "exploration");
    rep.set_rule("payloads built by the reference encoder R3 from field values plus raw deviations, handed to PwbV2Packet::try_from(&[u8]) and PwbPacket::try_from; compared with R3 on accept/reject, every accessor, waveform_at for all 79 readout channels, re-encoding; non-trivial = at least 56 bytes and version byte 2; distinct by 64-bit hash of the bytes");
    rep.assume("readout index -> (reset|fpn|pad) table typed independently from the documentation; MAC table snapshot from the pinned tree");
    let thorough = args.tier == Tier::Thorough;
    let reqs = [0u16, 1, 2, 3, 4, 5, 510, 511];

    rep.run("single-channel", 79 * 8 * 4, 30, true, "79 single-channel sent masks x requested_samples {0,1,2,3,4,5,510,511} x 4 sample contents (incl. i16 extremes and marker look-alikes)", |idx, loc| {
        let d = unrank(idx, &[79, 8, 4]);
        let ro = d[0] as u16 + 1;
        let p = mk_pwb(ro as usize, (ro % 4) as u8, reqs[d[1] as usize], &[ro], 1u128 << (ro - 1), d[2]);
        check_pwb(&ref_pwb_encode(&p), loc, true);
    });
    rep.run("channel-pairs", 79 * 79 * 4, 30, true, "all 3081 unordered pairs of sent channels x requested_samples {2,3,4,5}", |idx, loc| {
        let d = unrank(idx, &[79, 79, 4]);
        if d[0] >= d[1] {
            return;
        }
        let (a, b) = (d[0] as u16 + 1, d[1] as u16 + 1);
        let p = mk_pwb(a as usize + b as usize, 1, 2 + d[2] as u16, &[a, b], 1u128 << (b - 1), 0);
        check_pwb(&ref_pwb_encode(&p), loc, true);
    });
    rep.run("prefix-masks", 80 * 80 * 2, 30, true, "sent mask = contiguous readout range [i, j) for all 0<=i<=j<=79 x requested {6, 7} (covers 3+ channels, the full mask and the empty mask)", |idx, loc| {
        let d = unrank(idx, &[80, 80, 2]);
        if d[0] > d[1] {
            return;
        }
        let ros: Vec<u16> = (d[0] as u16 + 1..d[1] as u16 + 1).collect();
        let p = mk_pwb(d[0] as usize, 2, 6 + d[2] as u16, &ros, 0, 2);
        check_pwb(&ref_pwb_encode(&p), loc, true);
    });
    rep.run("full-mask", 8 * 4, 60, true, "all 79 channels sent x requested_samples (8 values) x 4 sample contents", |idx, loc| {
        let ros: Vec<u16> = (1..=79).collect();
        let p = mk_pwb(7, 3, reqs[(idx % 8) as usize], &ros, (1u128 << 79) - 1, idx / 8);
        check_pwb(&ref_pwb_encode(&p), loc, true);
    });
    rep.run("threshold-masks", 80 * 80, 30, true, "over-threshold mask: every pair of bits (i, j) in 0..80 incl. bit 79 and single bits, with 2 channels sent", |idx, loc| {
        let d = unrank(idx, &[80, 80]);
        let thr = (1u128 << d[0]) | (1u128 << d[1]);
        let p = mk_pwb(9, 0, 4, &[5, 70], thr, 0);
        check_pwb(&ref_pwb_encode(&p), loc, true);
    });
    rep.run("sent-bit-79", 80, 30, true, "bit 79 of the sent mask set together with each other single bit (data laid out as if the 80th channel existed / did not exist)", |idx, loc| {
        let mut p = mk_pwb(9, 0, 4, &[(idx % 79) as u16 + 1], 0, 0);
        p.sent_mask |= 1 << 79;
        let mut b = ref_pwb_encode(&p);
        if idx == 79 {
            // also give it a block for "readout 80"
            let n = b.len();
            b.splice(n - 4..n - 4, [80, 0, 4, 0, 1, 0, 2, 0, 3, 0, 4, 0]);
        }
        check_pwb(&b, loc, true);
    });

    // header byte sweeps
    let base2 = ref_pwb_encode(&mk_pwb(11, 1, 3, &[4, 16, 79], 0b1000, 0));
    let base0 = ref_pwb_encode(&mk_pwb(12, 2, 511, &[], 0, 0));
    let base_even = ref_pwb_encode(&mk_pwb(13, 3, 4, &[1, 2, 3, 40], 0, 3));
    let bases = [base2.clone(), base0.clone(), base_even.clone()];
    rep.run("header-byte-sweep", 3 * 52 * 256, 30, true, "3 base packets x each of the 52 header bytes x all 256 values", |idx, loc| {
        let d = unrank(idx, &[256, 52, 3]);
        let mut b = bases[d[2] as usize].clone();
        b[d[1] as usize] = d[0] as u8;
        check_pwb(&b, loc, true);
    });
    rep.run("enum-byte-product", 256 * 256 * 3, 30, true, "all 256x256 values of (chip, trigger source), (version, compression), (byte 18, byte 19)", |idx, loc| {
        let d = unrank(idx, &[256, 256, 3]);
        let mut b = base2.clone();
        let (i, j) = [(1, 3), (0, 2), (18, 19)][d[2] as usize];
        b[i] = d[0] as u8;
        b[j] = d[1] as u8;
        check_pwb(&b, loc, true);
    });
    rep.run("u16-field-sweeps", 65536 * 6, 30, true, "all 65536 values of: last_sca_cell; requested_samples with data left as is; requested_samples with data re-laid out (values <= 600); first block's channel index; first block's size; the odd-padding word", |idx, loc| {
        let d = unrank(idx, &[65536, 6]);
        let v = d[0] as u16;
        let b = match d[1] {
            0 => {
                let mut b = base2.clone();
                b[20..22].copy_from_slice(&v.to_le_bytes());
                b
            }
            1 => {
                let mut b = base2.clone();
                b[22..24].copy_from_slice(&v.to_le_bytes());
                b
            }
            2 => {
                if v > 600 {
                    return;
                }
                ref_pwb_encode(&mk_pwb(11, 1, v, &[4, 79], 0, 0))
            }
            3 => {
                let mut b = base2.clone();
                b[52..54].copy_from_slice(&v.to_le_bytes());
                b
            }
            4 => {
                let mut b = base2.clone();
                b[54..56].copy_from_slice(&v.to_le_bytes());
                b
            }
            _ => {
                // base2 has requested = 3 (odd): padding word of the second block
                let mut b = base2.clone();
                let o = 52 + 12 + 4 + 6;
                b[o..o + 2].copy_from_slice(&v.to_le_bytes());
                b
            }
        };
        check_pwb(&b, loc, true);
    });
    rep.run("block-headers", 79 * 79 * 2, 30, true, "2 channels sent (a<b): the second block's channel index replaced by every readout 1..=79, and by index+80 / 0; x {odd, even} sample count", |idx, loc| {
        let d = unrank(idx, &[79, 79, 2]);
        let (a, c) = (d[0] as u16 + 1, d[1] as u16 + 1);
        let rq = 3 + d[2] as u16;
        let p = mk_pwb(20, 0, rq, &[10, 40], 0, 0);
        let mut b = ref_pwb_encode(&p);
        let block = 4 + 2 * rq as usize + if rq % 2 == 1 { 2 } else { 0 };
        b[52..54].copy_from_slice(&a.to_le_bytes());
        b[52 + block..54 + block].copy_from_slice(&c.to_le_bytes());
        check_pwb(&b, loc, true);
    });
    rep.run("end-marker", 4 * 256, 30, true, "each end-marker byte at all 256 values", |idx, loc| {
        let mut b = base2.clone();
        let n = b.len();
        b[n - 4 + (idx / 256) as usize] = (idx % 256) as u8;
        check_pwb(&b, loc, true);
    });
    let maxlen = bases.iter().map(|b| b.len()).max().unwrap() as u64 + 12;
    rep.run("truncate-extend", 3 * maxlen * 2, 30, true, "3 base packets cut to / zero- or 0xCC-extended to every length 0..len+12", |idx, loc| {
        let d = unrank(idx, &[maxlen, 3, 2]);
        let mut b = bases[d[1] as usize].clone();
        b.resize(d[0] as usize, if d[2] == 0 { 0 } else { 0xCC });
        check_pwb(&b, loc, true);
    });
    rep.run("macs", 71 * 49, 30, true, "every table MAC x {as is, each byte +1, each byte at 0, 0xFF; each single bit of the first 4 bytes flipped}", |idx, loc| {
        let d = unrank(idx, &[49, 71]);
        let mut mac = PWB_BOARDS[d[1] as usize].1;
        match d[0] {
            0 => {}
            k @ 1..=6 => mac[k as usize - 1] = mac[k as usize - 1].wrapping_add(1),
            k @ 7..=12 => mac[k as usize - 7] = if mac[k as usize - 7] == 0 { 1 } else { 0 },
            k @ 13..=16 => mac[k as usize - 13] = if mac[k as usize - 13] == 0xFF { 0xFE } else { 0xFF },
            k => mac[(k as usize - 17) / 8] ^= 1 << ((k - 17) % 8),
        }
        let mut b = base2.clone();
        b[4..10].copy_from_slice(&mac);
        check_pwb(&b, loc, true);
    });
    rep.run("all-bytes-one-deviation", (base2.len() as u64) * 256, 30, true, "base packet with 3 channels (odd sample count): every byte at every value", |idx, loc| {
        let mut b = base2.clone();
        b[(idx / 256) as usize] = (idx % 256) as u8;
        check_pwb(&b, loc, true);
    });
    {
        // every subset of a 16-channel window of the sent mask (all 65536 subsets) at three window positions, odd and
        // even sample counts: data laid out by the reference encoder
        rep.run("sent-mask-window-subsets", 65536 * 3 * 2, 60, true, "sent mask = any subset (all 65536) of the readouts in a 16-wide window at {1..16, 33..48, 64..79} x requested_samples {3, 4}", |idx, loc| {
            let d = unrank(idx, &[65536, 3, 2]);
            let lo = [1u16, 33, 64][d[1] as usize];
            let ros: Vec<u16> = (0..16u16).filter(|k| d[0] >> k & 1 == 1).map(|k| lo + k).collect();
            let p = mk_pwb(17 + d[1] as usize, (d[0] % 4) as u8, 3 + d[2] as u16, &ros, 0, d[0] % 4);
            check_pwb(&ref_pwb_encode(&p), loc, true);
        });
    }
    if thorough {
        // every pair of header bytes at every pair of values (two simultaneous deviations, complete over the header)
        let hp: Vec<(usize, usize)> = (0..52).flat_map(|i| (i + 1..52).map(move |j| (i, j))).collect();
        rep.run("header-byte-pairs-all-values", hp.len() as u64 * 65536, 60, true, "base packet with 3 channels: every unordered pair of the 52 header bytes (1326) x all 65536 value pairs", |idx, loc| {
            let (i, j) = hp[(idx / 65536) as usize];
            let v = idx % 65536;
            let mut b = base2.clone();
            b[i] = (v & 0xFF) as u8;
            b[j] = (v >> 8) as u8;
            check_pwb(&b, loc, true);
        });
        let alpha = [0u8, 1, 2, 3, 0x41, 0x44, 0x45, 0x7F, 0x80, 0xCC, 0xFE, 0xFF];
        for (bi, base) in [("4 channels, even sample count", base_even.clone()), ("3 channels, odd sample count", base2.clone()), ("no channels", base0.clone())].into_iter().enumerate() {
            let n = base.1.len() as u64;
            rep.run(&format!("byte-pairs-{bi}"), n * n * 144, 30, true, &format!("base packet ({}): every pair of byte offsets x 12x12 boundary values (2 deviations)", base.0), |idx, loc| {
                let d = unrank(idx, &[12, 12, n, n]);
                if d[2] >= d[3] {
                    return;
                }
                let mut b = base.1.clone();
                b[d[2] as usize] = alpha[d[0] as usize];
                b[d[3] as usize] = alpha[d[1] as usize];
                check_pwb(&b, loc, true);
            });
        }
    }
    rep.finish()
}
