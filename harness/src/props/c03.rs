//! C03 — PWB chunks are integrity-checked.
use crate::core::*;
use crate::props::c02::panic_site;
use crate::refmodel::tables::PWB_BOARDS;
use crate::refmodel::*;
use crate::Args;
use alpha_g_detector::padwing::{AfterId, Chunk};
use serde_json::json;

fn after_num(a: AfterId) -> u8 {
    match a {
        AfterId::A => 0,
        AfterId::B => 1,
        AfterId::C => 2,
        AfterId::D => 3,
    }
}

pub fn real_chunk_to_ref(c: &Chunk) -> RefChunk {
    RefChunk {
        device_id: c.board_id().device_id(),
        packet_sequence: c.packet_sequence(),
        channel_sequence: c.channel_sequence(),
        chip: after_num(c.after_id()),
        flags: c.is_end_of_message() as u8,
        chunk_id: c.chunk_id(),
        payload: c.payload().to_vec(),
    }
}

/// Compare `Chunk::try_from` with R2 on one input.
pub fn check_chunk(b: &[u8], loc: &mut Local, strict: bool) {
    let h = hash64(b);
    let nontrivial = b.len() >= 28 && b.len() % 4 == 0;
    let real = match guard(|| Chunk::try_from(b)) {
        Ok(r) => r,
        Err(p) => {
            loc.note(h, nontrivial, "panic");
            loc.violation(format!("panic:chunk:{}", panic_site(&p)), json!({"input": hex(b), "len": b.len(), "panic": p}));
            return;
        }
    };
    loc.note(h, nontrivial, if real.is_ok() { "accept" } else { "reject" });
    let rf = if strict { ref_chunk_decode(b) } else { None };
    match &real {
        Ok(c) => {
            let r = guard(|| {
                let _ = format!("{c}");
                (real_chunk_to_ref(c), c.header_crc32c(), c.payload_crc32c())
            });
            match r {
                Err(pm) => loc.violation(format!("panic:chunk-accessor:{}", panic_site(&pm)), json!({"input": hex(b), "panic": pm})),
                Ok((got, hc, pc)) => {
                    if strict {
                        match &rf {
                            None => loc.violation("chunk:accepts-malformed", json!({"input": hex(b), "len": b.len()})),
                            Some(r) => {
                                let n = b.len();
                                if &got != r {
                                    loc.violation("chunk:accessor-mismatch", json!({"input": hex(b)}));
                                } else if ref_chunk_encode(&got) != b {
                                    loc.violation("chunk:reencode-mismatch", json!({"input": hex(b)}));
                                } else if hc.to_le_bytes() != b[16..20] || pc.to_le_bytes() != b[n - 4..] {
                                    loc.violation("chunk:crc-accessor-mismatch", json!({"input": hex(b)}));
                                }
                            }
                        }
                    }
                }
            }
        }
        Err(e) => {
            if strict && rf.is_some() {
                loc.violation("chunk:rejects-wellformed", json!({"input": hex(b), "len": b.len(), "error": e.to_string()}));
            }
        }
    }
    if loc.want_sample() {
        loc.sample(json!({"len": b.len(), "input": hex(&b[..b.len().min(48)]), "accepted": real.is_ok()}));
    }
}

/// The corrupted chunk must be rejected (typed error, no panic).
/// `h` identifies the corrupted input (hash of the fault description; hashing 65 KiB per case would dominate).
fn must_reject(b: &[u8], what: &str, h: u64, loc: &mut Local) {
    match guard(|| Chunk::try_from(b).is_ok()) {
        Err(p) => {
            loc.note(h, true, "panic");
            loc.violation(format!("panic:chunk:{}", panic_site(&p)), json!({"input": hex(b), "fault": what, "panic": p}));
        }
        Ok(true) => {
            loc.note(h, true, "accept");
            loc.violation("chunk:corruption-accepted", json!({"input": hex(b), "fault": what}));
        }
        Ok(false) => loc.note(h, true, "reject"),
    }
    if loc.want_sample() {
        loc.sample(json!({"fault": what, "len": b.len()}));
    }
}

pub fn payload_bytes(len: usize, salt: u8) -> Vec<u8> {
    (0..len).map(|i| (i as u8).wrapping_mul(31).wrapping_add(salt) | 1).collect()
}

pub fn mk_chunk(board: usize, chip: u8, flags: u8, id: u16, payload: Vec<u8>) -> Vec<u8> {
    ref_chunk_encode(&RefChunk { device_id: PWB_BOARDS[board % 71].2, packet_sequence: 0x0102_0304, channel_sequence: 0x0506, chip, flags, chunk_id: id, payload })
}

fn burst_mask(len: usize, pattern: u64) -> Option<u64> {
    let all = if len == 64 { !0 } else { (1u64 << len) - 1 };
    match pattern {
        0 => Some(all),
        1 => if len >= 3 { Some(1 | 1 << (len - 1)) } else { None },
        _ => if len >= 4 { Some((0x5555_5555_5555_5555 & all) | 1 << (len - 1)) } else { None },
    }
}

fn apply_burst(b: &mut [u8], bit_off: usize, mask: u64, len: usize) {
    for k in 0..len {
        if mask >> k & 1 == 1 {
            let bit = bit_off + k;
            b[bit / 8] ^= 1 << (bit % 8);
        }
    }
}

pub fn run(args: &Args) -> i32 {
    crc32c_selftest();
    let rep = super::report(args, "fault_enumeration");
    rep.set_rule("part A: chunks built by the reference encoder from field values plus raw deviations, compared with R2 (accept iff, accessors, CRC accessors, re-encode); part B: accepted chunks with every enumerated corruption applied, which must be rejected with a typed error; non-trivial = length >= 28 and a multiple of 4 (reaches the field checks); distinct by 64-bit hash of the bytes");
    rep.assume("reference CRC-32C is bit-wise (polynomial 0x82F63B78 reflected), self-tested against the RFC 3720 vectors at start-up");
    rep.assume("burst patterns per window: all ones, end points only, alternating — all 2^30 interior patterns are not enumerated (that is a property of the polynomial, not of this code)");
    let thorough = args.tier == Tier::Thorough;

    // ---- part A ----------------------------------------------------------
    let lens: Vec<usize> = if thorough {
        (1..=65535).collect()
    } else {
        (1..=300).chain([1023, 1024, 1025, 4095, 4096, 8192, 65532, 65533, 65534, 65535]).collect()
    };
    const VARS: u64 = 14;
    rep.run("payload-lengths", lens.len() as u64 * VARS, 30, thorough, "payload length (all 1..=65535 thorough; 1..=300 + 10 large quick) x {canonical, each padding byte non-zero, declared length off by -4..=+4 with header CRC re-derived, extra zero word, one word removed, stale payload CRC}", |idx, loc| {
        let len = lens[(idx / VARS) as usize];
        let v = idx % VARS;
        let mut b = mk_chunk(len, (len % 4) as u8, (len % 2) as u8, len as u16, payload_bytes(len, 7));
        let n = b.len();
        let pad = n - 24 - len;
        match v {
            0 => {}
            1..=3 => {
                // non-zero padding byte k (if it exists), payload CRC re-derived
                let k = (v - 1) as usize;
                if k >= pad {
                    return;
                }
                b[20 + len + k] = 0x80;
                chunk_fix_crcs(&mut b);
            }
            4..=11 => {
                // declared length off by d in {-4..-1, 1..4}
                let d = [-4i64, -3, -2, -1, 1, 2, 3, 4][(v - 4) as usize];
                let nl = len as i64 + d;
                if !(0..=65535).contains(&nl) {
                    return;
                }
                b[14..16].copy_from_slice(&(nl as u16).to_le_bytes());
                chunk_fix_crcs(&mut b);
            }
            12 => {
                // extra zero word before the payload CRC
                let crc_pos = n - 4;
                b.splice(crc_pos..crc_pos, [0u8; 4]);
                chunk_fix_crcs(&mut b);
            }
            _ => {
                // stale payload CRC after changing the last payload byte
                b[20 + len - 1] ^= 0xFF;
            }
        }
        check_chunk(&b, loc, true);
    });

    // padding contents: every combination of padding byte values (several bytes non-zero at once), CRC re-derived
    const PADV: [u8; 16] = [0, 1, 2, 3, 7, 0x0F, 0x10, 0x55, 0x7F, 0x80, 0x81, 0xAA, 0xF0, 0xFE, 0xFF, 0x40];
    let n3: u64 = if thorough { 256 } else { 16 };
    rep.run("padding-product", 2 * (256 + 65536 + n3 * n3 * n3), 30, true, "payload lengths {3,7} (1 padding byte: all 256 values), {2,6} (2 bytes: all 65536 pairs), {1,5} (3 bytes: all 2^24 triples thorough, a 16-value alphabet cubed quick), payload CRC re-derived", |idx, loc| {
        let per = 256 + 65536 + n3 * n3 * n3;
        let (which, k) = (idx / per, idx % per);
        let (pad, vals): (usize, [u8; 3]) = if k < 256 {
            (1, [k as u8, 0, 0])
        } else if k < 256 + 65536 {
            let j = k - 256;
            (2, [(j & 0xFF) as u8, (j >> 8) as u8, 0])
        } else {
            let j = k - 256 - 65536;
            let d = unrank(j, &[n3, n3, n3]);
            let f = |x: u64| if n3 == 256 { x as u8 } else { PADV[x as usize] };
            (3, [f(d[0]), f(d[1]), f(d[2])])
        };
        let len = 4 - pad + 4 * which as usize;
        let mut b = mk_chunk(len, 1, 1, 0, payload_bytes(len, 9));
        for i in 0..pad {
            b[20 + len + i] = vals[i];
        }
        chunk_fix_crcs(&mut b);
        check_chunk(&b, loc, true);
    });

    // total length off the 32-bit grid with self-consistent contents: padding shortened / lengthened by 1..=3 bytes
    // (zeros), payload CRC re-derived over what is there
    rep.run("unaligned-lengths", 300 * 6, 30, true, "payload length 1..=300 x total length changed by {-3, -2, -1, +1, +2, +3} zero bytes before the payload CRC (as far as the padding allows), CRCs re-derived", |idx, loc| {
        let len = 1 + (idx / 6) as usize;
        let delta = [-3i64, -2, -1, 1, 2, 3][(idx % 6) as usize];
        let mut b = mk_chunk(len, 1, 1, 0, payload_bytes(len, 5));
        let crc_pos = b.len() - 4;
        let pad = crc_pos - 20 - len;
        if delta < 0 {
            if (-delta) as usize > pad {
                return;
            }
            b.drain(crc_pos - (-delta) as usize..crc_pos);
        } else {
            b.splice(crc_pos..crc_pos, std::iter::repeat(0u8).take(delta as usize));
        }
        // chunk_fix_crcs assumes the CRC word is the last four bytes
        chunk_fix_crcs(&mut b);
        check_chunk(&b, loc, true);
    });

    // slices far longer than the declared payload (a length check done in 16-bit arithmetic wraps at 65536)
    let over_lens = [1usize, 2, 3, 4, 5, 100, 65532, 65533, 65534, 65535];
    let over_extra = [65528usize, 65532, 65536, 65540, 131072, 196608];
    rep.run("oversize-slices", (over_lens.len() * over_extra.len() * 2) as u64, 60, true, "payload length {1..5, 100, 65532..65535} x {65528, 65532, 65536, 65540, 131072, 196608} extra zero bytes between payload and payload CRC x {CRC over payload + zeros, CRC over the payload only}", |idx, loc| {
        let d = unrank(idx, &[over_lens.len() as u64, over_extra.len() as u64, 2]);
        let len = over_lens[d[0] as usize];
        let mut b = mk_chunk(2, 1, 0, 0, payload_bytes(len, 3));
        let crc_pos = b.len() - 4;
        b.splice(crc_pos..crc_pos, std::iter::repeat(0u8).take(over_extra[d[1] as usize]));
        if d[2] == 0 {
            chunk_fix_crcs(&mut b);
        }
        check_chunk(&b, loc, true);
    });

    // header fields
    rep.run("chip-flags-product",256 * 256 * 2, 30, true, "chip id 0..=255 x flags 0..=255 x {CRC re-derived, CRC stale}", |idx, loc| {
        let d = unrank(idx, &[256, 256, 2]);
        let mut b = mk_chunk(3, 0, 0, 2, payload_bytes(5, 1));
        b[10] = d[0] as u8;
        b[11] = d[1] as u8;
        if d[2] == 0 {
            chunk_fix_crcs(&mut b);
        }
        check_chunk(&b, loc, true);
    });
    rep.run("device-ids", 71 * 34 * 2, 30, true, "71 known device ids x {as is, each single bit flipped, byte-swapped} x {CRC re-derived, stale}", |idx, loc| {
        let d = unrank(idx, &[34, 71, 2]);
        let mut id = PWB_BOARDS[d[1] as usize].2;
        match d[0] {
            0 => {}
            33 => id = id.swap_bytes(),
            k => id ^= 1 << (k - 1),
        }
        let mut b = mk_chunk(0, 1, 1, 0, payload_bytes(9, 2));
        b[..4].copy_from_slice(&id.to_le_bytes());
        if d[2] == 0 {
            chunk_fix_crcs(&mut b);
        }
        check_chunk(&b, loc, true);
    });
    let edge32 = [0u32, 1, 0x7FFF_FFFF, 0x8000_0000, 0xFFFF_FFFE, 0xFFFF_FFFF];
    let edge16 = [0u16, 1, 0x7FFF, 0x8000, 0xFFFE, 0xFFFF];
    rep.run("sequence-fields", 6 * 6 * 6, 30, true, "packet_sequence x channel_sequence x chunk_id over 6-value boundary alphabets", |idx, loc| {
        let d = unrank(idx, &[6, 6, 6]);
        let c = RefChunk { device_id: PWB_BOARDS[70].2, packet_sequence: edge32[d[0] as usize], channel_sequence: edge16[d[1] as usize], chip: 3, flags: 1, chunk_id: edge16[d[2] as usize], payload: payload_bytes(64, 3) };
        check_chunk(&ref_chunk_encode(&c), loc, true);
    });
    rep.run("raw-lengths", 200 * 3, 30, true, "every length 0..200 x {zeros, 0xFF, valid chunk truncated}", |idx, loc| {
        let len = (idx / 3) as usize;
        let b = match idx % 3 {
            0 => vec![0u8; len],
            1 => vec![0xFF; len],
            _ => {
                let mut v = mk_chunk(1, 1, 0, 1, payload_bytes(200, 4));
                v.truncate(len);
                v
            }
        };
        check_chunk(&b, loc, true);
    });
    // every byte of an accepted chunk at every value, CRCs stale and re-derived
    let base = mk_chunk(5, 2, 1, 3, payload_bytes(6, 5));
    rep.run("byte-sweep", base.len() as u64 * 256 * 2, 30, true, "32-byte accepted chunk x every offset x all 256 values x {stale CRCs, CRCs re-derived}", |idx, loc| {
        let d = unrank(idx, &[256, base.len() as u64, 2]);
        let mut b = base.clone();
        b[d[1] as usize] = d[0] as u8;
        if d[2] == 1 {
            chunk_fix_crcs(&mut b);
        }
        check_chunk(&b, loc, true);
    });

    // ---- part B: fault enumeration on accepted chunks ---------------------
    // (payload length, end-of-message flag): padded chunks with the flag set and clear (the padding is covered by
    // the payload CRC whatever the flags say)
    let sizes: Vec<(usize, u8)> = if thorough { vec![(1, 1), (2, 0), (5, 0), (5, 1), (9, 0), (13, 1)] } else { vec![(1, 1), (2, 0), (5, 0)] };
    for &(pl, fl) in &sizes {
        let base = mk_chunk(pl, 1, fl, 0, payload_bytes(pl, 9));
        let bits = (base.len() * 8) as u64;
        rep.run(&format!("flips-1to3-{}B-flags{}-payload{}", base.len(), fl, pl), bits * bits * bits, 30, true, &format!("accepted {}-byte chunk (payload {} bytes, flags {}): every set of 1, 2 or 3 distinct bit positions flipped (ordered triple i<=j<=k enumerated once)", base.len(), pl, fl), |idx, loc| {
            let d = unrank(idx, &[bits, bits, bits]);
            let (i, j, k) = (d[0], d[1], d[2]);
            // canonical encodings: i<j<k (3 flips), i=j<k (2 flips: j,k)... keep it simple:
            // 3 flips: i<j<k ; 2 flips: i==j<k ; 1 flip: i==j==k
            if !(i <= j && j <= k) || (i < j && j == k) {
                return;
            }
            let mut b = base.clone();
            let mut flip = |p: u64| b[(p / 8) as usize] ^= 1 << (p % 8);
            flip(k);
            if j != k {
                flip(j);
                if i != j {
                    flip(i);
                }
            } else if i != j {
                unreachable!();
            }
            must_reject(&b, "bit flips", hash64(&(pl, i, j, k)), loc);
        });
    }
    let burst_sizes: Vec<usize> = if thorough { vec![1, 6, 100, 1000, 65535] } else { vec![1, 6, 100, 1000] };
    for &pl in &burst_sizes {
        let base = mk_chunk(pl, 2, 1, 1, payload_bytes(pl, 11));
        let bits = (base.len() * 8) as u64;
        rep.run(&format!("bursts-{}B", base.len()), bits * 32 * 3, 60, true, &format!("accepted {}-byte chunk: every bit offset x burst length 1..=32 x 3 patterns (windows that fit)", base.len()), |idx, loc| {
            let d = unrank(idx, &[3, 32, bits]);
            let len = d[1] as usize + 1;
            let off = d[2] as usize;
            if off + len > bits as usize {
                return;
            }
            let Some(mask) = burst_mask(len, d[0]) else { return };
            let mut b = base.clone();
            apply_burst(&mut b, off, mask, len);
            must_reject(&b, "burst", hash64(&(pl, off, len, d[0], 1u8)), loc);
        });
    }
    // single bit flips of larger chunks (position coverage of both CRCs)
    for &pl in &[300usize, 65535] {
        if pl == 65535 && !thorough {
            continue;
        }
        let base = mk_chunk(pl, 0, 0, 7, payload_bytes(pl, 13));
        let bits = (base.len() * 8) as u64;
        rep.run(&format!("flips-1-{}B", base.len()), bits, 60, true, &format!("accepted {}-byte chunk: every single bit flipped", base.len()), |idx, loc| {
            let mut b = base.clone();
            b[(idx / 8) as usize] ^= 1 << (idx % 8);
            must_reject(&b, "bit flip", hash64(&(pl, idx, 2u8)), loc);
        });
    }
    rep.finish()
}
