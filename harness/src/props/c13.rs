//! C13 — reconstruction respects the detector's cylindrical and mirror symmetry.
use crate::core::*;
use crate::props::c02::panic_site;
use crate::props::event::*;
use crate::refmodel::sim::*;
use crate::Args;
use alpha_g_physics::verif_hooks as vh;
use alpha_g_physics::{Avalanche, MainEvent};
use serde_json::json;
use std::f64::consts::PI;
use uom::si::angle::radian;
use uom::si::length::meter;
use uom::si::time::second;

fn make_event(sig: &Signals) -> Box<MainEvent> {
    let mut w: vh::WireSignals = [(); 256].map(|_| None);
    for (i, s) in &sig.wires {
        w[*i] = Some(s.clone());
    }
    let mut p: Box<vh::PadSignals> = Box::new([(); 32].map(|_| [(); 576].map(|_| None)));
    for ((c, r), s) in &sig.pads {
        p[*c][*r] = Some(s.clone());
    }
    Box::new(MainEvent::verif_from_signals(w, *p, 1))
}

pub fn rotate(sig: &Signals, k: usize) -> Signals {
    Signals { wires: sig.wires.iter().map(|(w, s)| ((w + 8 * k) % 256, s.clone())).collect(), pads: sig.pads.iter().map(|((c, r), s)| (((c + k) % 32, *r), s.clone())).collect() }
}
pub fn mirror(sig: &Signals) -> Signals {
    Signals { wires: sig.wires.clone(), pads: sig.pads.iter().map(|((c, r), s)| ((*c, 575 - r), s.clone())).collect() }
}

/// (t bits, wire, z, wire amplitude bits, pad amplitude bits)
type Key = (u64, usize, f64, u64, u64);

fn wire_of(a: &Avalanche) -> usize {
    let pitch = 2.0 * PI / 256.0;
    let shifted = (a.phi.get::<radian>() / pitch - 0.5).round() as i64;
    ((shifted + 8).rem_euclid(256)) as usize
}

/// An avalanche "on wire w" carries the azimuth of that wire: the library's own `TpcWirePosition::phi()`, bit for bit
/// (an azimuth that differs from it by a multiple of 2 pi, or by rounding, is not the rotated wire's azimuth).
/// Wire index 1000 + w marks an avalanche whose azimuth is not its wire's.
fn wire_checked(a: &Avalanche) -> usize {
    let w = wire_of(a);
    let want = alpha_g_detector::alpha16::aw_map::TpcWirePosition::try_from(w).map(|p| p.phi());
    if want.ok().map(|x| x.to_bits()) == Some(a.phi.get::<radian>().to_bits()) { w } else { 1000 + w }
}

fn keys(ev: &MainEvent) -> Result<Vec<Key>, String> {
    guard(|| ev.avalanches().iter().map(|a| (a.t.get::<second>().to_bits(), wire_checked(a), a.z.get::<meter>(), a.wire_amplitude.to_bits(), a.pad_amplitude.to_bits())).collect())
}

fn sort_keys(v: &mut [Key]) {
    v.sort_by(|a, b| (a.0, a.1, a.4).cmp(&(b.0, b.1, b.4)).then(a.2.partial_cmp(&b.2).unwrap_or(std::cmp::Ordering::Equal)).then(a.3.cmp(&b.3)));
}

/// Is there a pair of pad hits with bit-equal amplitude in this column and time bin? (witness for the
/// known mirror finding)
fn pad_tie_witness(sig: &Signals, column: usize, tbin: usize) -> bool {
    let mut inputs: Box<[Vec<f64>; 576]> = Box::new([(); 576].map(|_| Vec::new()));
    for ((c, r), s) in &sig.pads {
        if *c == column {
            inputs[*r] = vh::pad_deconvolution(s);
        }
    }
    let hits = vh::pad_hits_at_t(&inputs, tbin);
    for i in 0..hits.len() {
        for j in i + 1..hits.len() {
            if hits[i].1.to_bits() == hits[j].1.to_bits() {
                return true;
            }
        }
    }
    false
}

fn check_pattern(sig: &Signals, rotations: &[usize], do_mirror: bool, what: serde_json::Value, loc: &mut Local) {
    let h = hash64(&(sig.wires.iter().map(|(w, s)| (*w, s.iter().map(|x| x.to_bits()).collect::<Vec<_>>())).collect::<Vec<_>>(), sig.pads.keys().collect::<Vec<_>>()));
    let base = match keys(&make_event(sig)) {
        Ok(k) => k,
        Err(p) => {
            loc.note(h, true, "panic");
            loc.violation(format!("panic:event:{}", panic_site(&p)), json!({"case": what, "panic": p}));
            return;
        }
    };
    if let Some(bad) = base.iter().find(|a| a.1 >= 1000) {
        loc.violation("c13:avalanche-azimuth-is-not-its-wire-azimuth", json!({"case": what, "wire": bad.1 - 1000}));
    }
    let full_ring = sig.wires.len() == 256;
    loc.note(h, !base.is_empty(), if base.is_empty() { "no-avalanches" } else { "avalanches" });
    loc.count("avalanches_in_base_patterns", base.len() as u64);
    for &k in rotations {
        let rot = match keys(&make_event(&rotate(sig, k))) {
            Ok(r) => r,
            Err(p) => {
                loc.violation(format!("panic:event:{}", panic_site(&p)), json!({"case": what, "rotation": k, "panic": p}));
                return;
            }
        };
        loc.count("rotations_compared", 1);
        let mut want: Vec<Key> = base.iter().map(|a| (a.0, (a.1 + 8 * k) % 256, a.2, a.3, a.4)).collect();
        let mut got = rot;
        sort_keys(&mut want);
        sort_keys(&mut got);
        let same = want.len() == got.len() && want.iter().zip(&got).all(|(a, b)| a.0 == b.0 && a.1 == b.1 && a.2.to_bits() == b.2.to_bits() && a.3 == b.3 && a.4 == b.4);
        if !same {
            let first = want.iter().zip(&got).find(|(a, b)| !(a.0 == b.0 && a.1 == b.1 && a.2.to_bits() == b.2.to_bits() && a.3 == b.3 && a.4 == b.4));
            let detail = json!({"case": what, "rotation_columns": k, "avalanches": [want.len(), got.len()], "occupied_wires": sig.wires.len(),
                "first_difference": first.map(|(a, b)| json!({"expected": {"t": f64::from_bits(a.0), "wire": a.1, "z": a.2, "wire_amp": f64::from_bits(a.3), "pad_amp": f64::from_bits(a.4)}, "got": {"t": f64::from_bits(b.0), "wire": b.1, "z": b.2, "wire_amp": f64::from_bits(b.3), "pad_amp": f64::from_bits(b.4)}}))});
            // known finding: with all 256 wires occupied the Cholesky solve of a cyclically permuted
            // right-hand side is equal only to rounding (not bit for bit). Witness: occupancy = 256,
            // same count, same t / wire / z / pad amplitude bits, wire amplitudes within 1e-9 relative.
            let rounding_only = full_ring && {
                // drop noise-level wire amplitudes (solve residues ~1e-13 that happen to be negative
                // on one side of the rotation and positive on the other)
                let strip = |v: &[Key]| -> Vec<Key> { v.iter().copied().filter(|a| f64::from_bits(a.3) > 1e-6).collect() };
                let (w2, g2) = (strip(&want), strip(&got));
                w2.len() == g2.len() && w2.iter().zip(&g2).all(|(a, b)| a.0 == b.0 && a.1 == b.1 && a.2.to_bits() == b.2.to_bits() && a.4 == b.4 && (f64::from_bits(a.3) - f64::from_bits(b.3)).abs() <= 1e-9 * f64::from_bits(a.3).abs())
            };
            loc.violation(if rounding_only { "c13:rotation:full-ring-rounding" } else { "c13:rotation-not-invariant" }, detail);
            return;
        }
    }
    if do_mirror {
        let msig = mirror(sig);
        let mir = match keys(&make_event(&msig)) {
            Ok(r) => r,
            Err(p) => {
                loc.violation(format!("panic:event:{}", panic_site(&p)), json!({"case": what, "mirror": true, "panic": p}));
                return;
            }
        };
        loc.count("mirrors_compared", 1);
        let mut want: Vec<Key> = base.iter().map(|a| (a.0, a.1, -a.2, a.3, a.4)).collect();
        let mut got = mir;
        sort_keys(&mut want);
        sort_keys(&mut got);
        let eq = |a: &Key, b: &Key| a.0 == b.0 && a.1 == b.1 && (a.2 - b.2).abs() <= 1e-9 && a.3 == b.3 && a.4 == b.4;
        let same = want.len() == got.len() && want.iter().zip(&got).all(|(a, b)| eq(a, b));
        if !same {
            let first = want.iter().zip(&got).find(|(a, b)| !eq(a, b));
            // witness for the known finding: a tie of bit-equal pad amplitudes in the column and time
            // bin of the first differing avalanche
            let tie = first.map(|(a, _)| {
                let tbin = (f64::from_bits(a.0) * 62.5e6).round() as usize;
                pad_tie_witness(sig, wire_column(a.1), tbin) || pad_tie_witness(&msig, wire_column(a.1), tbin)
            }).unwrap_or(false);
            loc.violation(if tie && want.len() == got.len() { "c13:mirror:pad-amplitude-tie" } else { "c13:mirror-not-symmetric" }, json!({"case": what, "avalanches": [want.len(), got.len()],
                "first_difference": first.map(|(a, b)| json!({"expected": {"t": f64::from_bits(a.0), "wire": a.1, "z": a.2, "pad_amp": f64::from_bits(a.4)}, "got": {"t": f64::from_bits(b.0), "wire": b.1, "z": b.2, "pad_amp": f64::from_bits(b.4)}})),
                "bit_equal_pad_amplitudes_in_that_column_and_time_bin": tie}));
        }
    }
    if loc.want_sample() {
        loc.sample(json!({"case": what, "wires_with_data": sig.wires.len(), "pads_with_data": sig.pads.len(), "avalanches": base.len(), "rotations": rotations.len(), "mirror": do_mirror}));
    }
}

fn hits_signals(hits: &[Hit], sigma: f64) -> Signals {
    signals(maps(), sigma, hits)
}

pub fn run(args: &Args) -> i32 {
    let rep = super::report(args, "exploration");
    rep.set_rule("every case = one pattern of calibrated wire and pad signals (built by the forward model from a list of avalanches) put into an event through the cfg-guarded constructor; avalanches() of the pattern is compared with avalanches() of each rotated copy (wire w -> w+8k, pad column c -> c+k) as multisets of (t, wire, z, wire amplitude, pad amplitude) bit patterns, and with the mirrored copy (pad row r -> 575-r; z negated within 1e-9 m); non-trivial = the pattern yields at least one avalanche; distinct by hash of the signals");
    rep.assume("signals are rotated exactly (same f64 vectors moved to other indices), so any difference comes from the reconstruction");
    let thorough = args.tier == Tier::Thorough;
    let all_rot: Vec<usize> = (1..32).collect();
    let few_rot: Vec<usize> = vec![1, 5, 16, 31];

    // F1: every non-empty subset of a wire window straddling a column boundary
    let win = if thorough { 12 } else { 7 };
    rep.run("window-subsets", (1u64 << win) - 1, 600, true, &format!("every non-empty subset of a {win}-wire window (wires 3..) gets one avalanche each (distinct time bins, z, amplitudes; induced neighbours; pad charge over 3+ rows): all 31 rotations + mirror"), |idx, loc| {
        let mask = idx + 1;
        let hits: Vec<Hit> = (0..win).filter(|i| mask >> i & 1 == 1).map(|i| Hit { wire: 3 + i, bin: 20 + 3 * i, z: -0.31 + 0.0137 * i as f64, amp: 100.0 + 7.0 * i as f64 }).collect();
        check_pattern(&hits_signals(&hits, 0.004), &all_rot, true, json!({"family": "window-subsets", "wires_hit": hits.iter().map(|h| h.wire).collect::<Vec<_>>()}), loc);
    });

    // F2: blocks of every length straddling the 255/0 seam at every phase
    let lens: Vec<usize> = if thorough { (1..=40).chain([64, 128, 250, 255, 256]).collect() } else { vec![1, 2, 5, 9, 17, 40, 255, 256] };
    let nl = lens.len() as u64;
    rep.run("seam-blocks", nl * 8, 600, true, "a block of n wires carrying data (n in 1..=40, 64, 128, 250, 255, 256; quick: 8 lengths) starting at wire 256-n/2+phase (phase 0..8, i.e. straddling the seam at every alignment) with avalanches on every third wire: rotations + mirror", |idx, loc| {
        let n = lens[(idx / 8) as usize];
        let phase = (idx % 8) as usize;
        let start = (256 - n / 2 + phase) % 256;
        let block: Vec<usize> = (0..n).map(|j| (start + j) % 256).collect();
        let hits: Vec<Hit> = block.iter().enumerate().filter(|(j, _)| j % 3 == 0).map(|(j, &w)| Hit { wire: w, bin: 15 + (j % 11) * 4, z: 0.2 + 0.0093 * (j % 17) as f64, amp: 80.0 + (j % 7) as f64 * 11.0 }).collect();
        let mut sig = hits_signals(&hits, 0.0045);
        sig.wires.retain(|w, _| block.contains(w));
        for &w in &block {
            sig.wires.entry(w).or_insert_with(|| vec![0.0; WIRE_N - DELAY]);
        }
        // every other phase: per-wire waveform lengths differ (longest only on some wires of the block)
        if phase % 2 == 1 {
            for (w, s) in sig.wires.iter_mut() {
                s.truncate(WIRE_N - DELAY - 11 * (w % 4));
            }
        }
        let rots: &[usize] = if n >= 250 && !thorough { &few_rot } else { &all_rot };
        check_pattern(&sig, rots, true, json!({"family": "seam-blocks", "block_start": start, "block_len": n}), loc);
    });

    // F2b: two separate blocks (a seam-straddling one and a second one a few wires further, same or next pad column)
    rep.run("two-blocks", 6 * 4 * 4, 600, true, "block A of 3..8 wires straddling the 255/0 seam + gap of 1..4 empty wires + block B of 3 wires, avalanches on the first and last wire of each, block A placed at 4 alignments: rotations + mirror", |idx, loc| {
        let d = unrank(idx, &[6, 4, 4]);
        let (la, gap, shift) = (3 + d[0] as usize, 1 + d[1] as usize, d[2] as usize);
        let a0 = (256 - la / 2 - shift) % 256;
        let a: Vec<usize> = (0..la).map(|j| (a0 + j) % 256).collect();
        let b: Vec<usize> = (0..3).map(|j| (a0 + la + gap + j) % 256).collect();
        let mut hits = Vec::new();
        for (k, blk) in [&a, &b].into_iter().enumerate() {
            for (j, &w) in [blk[0], blk[blk.len() - 1]].iter().enumerate() {
                hits.push(Hit { wire: w, bin: 20 + 9 * k + 4 * j, z: -0.2 + 0.11 * k as f64 + 0.03 * j as f64, amp: 90.0 + 17.0 * (k * 2 + j) as f64 });
            }
        }
        let mut sig = hits_signals(&hits, 0.004);
        sig.wires.retain(|w, _| a.contains(w) || b.contains(w));
        for &w in a.iter().chain(&b) {
            sig.wires.entry(w).or_insert_with(|| vec![0.0; WIRE_N - DELAY]);
        }
        check_pattern(&sig, &all_rot, true, json!({"family": "two-blocks", "block_a": a, "block_b": b}), loc);
    });

    // F3: forward-model lattice events
    let n_ev = if thorough { 120 } else { 6 };
    rep.run("lattice-events", n_ev, 600, true, "forward-model lattice events (2-4 tracks): rotations + mirror", |idx, loc| {
        let li = (idx * 109 + 7) % 4320;
        let spec = lattice_event(li, 0);
        let m = maps();
        let sig = signals(m, spec.sigma_z, &ionisation(m, &spec));
        check_pattern(&sig, if thorough { &all_rot } else { &few_rot }, true, json!({"family": "lattice-event", "lattice_index": li}), loc);
    });

    // F4: synthetic 2- and 3-avalanche events in one column and time bin, distinct and equal amplitudes
    rep.run("same-bin-multiplets", 2 * 3 * 4 * 8, 600, true, "2 or 3 avalanches in the same pad column and time bin x wire amplitudes {distinct, equal, two equal} x z separations {8 mm (2 pad rows), 12 mm, 40 mm, 200 mm} x column phase: rotations + mirror", |idx, loc| {
        let d = unrank(idx, &[2, 3, 4, 8]);
        let n = 2 + d[0] as usize;
        let sep = [0.008, 0.012, 0.040, 0.2][d[2] as usize];
        let hits: Vec<Hit> = (0..n).map(|i| Hit {
            wire: (8 + 8 * d[3] as usize + [1, 4, 6][i]) % 256,
            bin: 30,
            z: 0.1013 + sep * i as f64,
            amp: match d[1] { 0 => 100.0 + 20.0 * i as f64, 1 => 100.0, _ => if i == 2 { 140.0 } else { 100.0 } },
        }).collect();
        check_pattern(&hits_signals(&hits, 0.004), &all_rot, true, json!({"family": "same-bin-multiplets", "n": n, "amplitudes": d[1], "z_separation": sep, "column": 1 + d[3]}), loc);
    });

    // F6: exact ties: two pad clusters with bit-equal signals in one column and time bin
    rep.run("pad-amplitude-ties", 8, 600, true, "two wire avalanches of different amplitude in one pad column and time bin, and two pad clusters (3 rows each) carrying bit-identical signals at rows r1 and r2: rotations + mirror", |idx, loc| {
        let col = 3 + idx as usize;
        let (r1, r2) = (100 + 7 * idx as usize, 300 + 11 * idx as usize);
        let mut sig = Signals::default();
        for (w, amp) in [(8 * col + 8 + 2, 90.0), (8 * col + 8 + 5, 140.0)] {
            for dd in -4i64..=4 {
                let ww = (w as i64 + dd).rem_euclid(256) as usize;
                let s = sig.wires.entry(ww).or_insert_with(|| vec![0.0; 120]);
                add_wire_pulse(s, 30, amp * NEIGHBOR[dd.unsigned_abs() as usize]);
            }
        }
        for r in [r1, r2] {
            for (dr, q) in [(0usize, 40.0), (1, 100.0), (2, 55.0)] {
                let mut s = vec![0.0; 120];
                add_pad_pulse(&mut s, 30, q);
                sig.pads.insert((col, r + dr), s);
            }
        }
        check_pattern(&sig, &few_rot, true, json!({"family": "pad-amplitude-ties", "column": col, "rows": [r1 + 1, r2 + 1]}), loc);
    });

    // F7: plateaus of bit-equal pad amplitudes on adjacent rows
    rep.run("pad-plateaus", 4 * 4 * 4, 600, true, "one wire avalanche and a pad cluster whose 2..=5 central rows carry bit-identical signals, flanked by smaller ones (4 flank pairs incl. zero) at 4 columns: rotations + mirror", |idx, loc| {
        let d = unrank(idx, &[4, 4, 4]);
        let width = 2 + d[0] as usize;
        let (a, c) = [(40.0, 55.0), (55.0, 40.0), (0.0, 40.0), (30.0, 30.0)][d[1] as usize];
        let col = [0usize, 7, 16, 31][d[2] as usize];
        let r0 = 200 + 13 * d[0] as usize;
        let mut sig = Signals::default();
        let w = (8 * col + 8 + 3) % 256;
        for dd in -4i64..=4 {
            let ww = (w as i64 + dd).rem_euclid(256) as usize;
            let s = sig.wires.entry(ww).or_insert_with(|| vec![0.0; 120]);
            add_wire_pulse(s, 25, 120.0 * NEIGHBOR[dd.unsigned_abs() as usize]);
        }
        let mut amps = vec![a];
        amps.extend(std::iter::repeat(100.0).take(width));
        amps.push(c);
        for (i, q) in amps.iter().enumerate() {
            if *q > 0.0 {
                let mut s = vec![0.0; 120];
                add_pad_pulse(&mut s, 25, *q);
                sig.pads.insert((col, r0 + i), s);
            }
        }
        check_pattern(&sig, &few_rot, true, json!({"family": "pad-plateaus", "column": col, "first_row": r0, "pad_amplitudes": amps}), loc);
    });

    // F7b: pad clusters with rows that carry no data at all (pad not sent / suppressed) inside or next to the cluster
    let profiles: [&[f64]; 4] = [&[30.0, 60.0, 100.0, 70.0, 40.0, 20.0], &[100.0, 70.0, 40.0, 20.0, 10.0, 5.0], &[20.0, 50.0, 40.0, 90.0, 60.0, 30.0], &[50.0, 50.0, 80.0, 80.0, 50.0, 50.0]];
    rep.run("pad-gaps", 4 * 64 * 2, 600, true, "one wire avalanche and a 6-row pad cluster (4 amplitude profiles) from which every subset of rows is left without data (all 64 subsets), at 2 columns: rotations + mirror", |idx, loc| {
        let d = unrank(idx, &[64, 4, 2]);
        let col = [3usize, 31][d[2] as usize];
        let r0 = 285;
        let mut sig = Signals::default();
        let w = (8 * col + 8 + 4) % 256;
        for dd in -4i64..=4 {
            let ww = (w as i64 + dd).rem_euclid(256) as usize;
            let s = sig.wires.entry(ww).or_insert_with(|| vec![0.0; 120]);
            add_wire_pulse(s, 25, 120.0 * NEIGHBOR[dd.unsigned_abs() as usize]);
        }
        let amps = profiles[d[1] as usize];
        for (i, q) in amps.iter().enumerate() {
            if d[0] >> i & 1 == 0 {
                let mut s = vec![0.0; 120];
                add_pad_pulse(&mut s, 25, *q);
                sig.pads.insert((col, r0 + i), s);
            }
        }
        check_pattern(&sig, &few_rot, true, json!({"family": "pad-gaps", "column": col, "first_row": r0, "pad_amplitudes": amps, "rows_without_data_mask": d[0]}), loc);
    });

    // F7c: pad clusters at the two ends of the detector (rows 0.. and ..575), where the sliding window starts and stops
    rep.run("pad-clusters-at-the-ends", 12 * 3 * 2, 600, true, "one wire avalanche and a 3-row pad cluster centred on row {0, 1, 2, 3, 4, 5} and {570..575} (clipped at the ends) x 3 amplitude profiles x 2 columns: rotations + mirror", |idx, loc| {
        let d = unrank(idx, &[12, 3, 2]);
        let centre: i64 = if d[0] < 6 { d[0] as i64 } else { 570 + (d[0] as i64 - 6) };
        let amps = [[40.0, 100.0, 55.0], [100.0, 60.0, 30.0], [30.0, 60.0, 100.0]][d[1] as usize];
        let col = [5usize, 31][d[2] as usize];
        let mut sig = Signals::default();
        let w = (8 * col + 8 + 4) % 256;
        for dd in -4i64..=4 {
            let ww = (w as i64 + dd).rem_euclid(256) as usize;
            let s = sig.wires.entry(ww).or_insert_with(|| vec![0.0; 120]);
            add_wire_pulse(s, 25, 120.0 * NEIGHBOR[dd.unsigned_abs() as usize]);
        }
        for (i, q) in amps.iter().enumerate() {
            let row = centre - 1 + i as i64;
            if (0..576).contains(&row) {
                let mut s = vec![0.0; 120];
                add_pad_pulse(&mut s, 25, *q);
                sig.pads.insert((col, row as usize), s);
            }
        }
        check_pattern(&sig, &few_rot, true, json!({"family": "pad-clusters-at-the-ends", "column": col, "centre_row": centre, "pad_amplitudes": amps}), loc);
    });

    // F8: hook-free variant: the same relation through spec-conformant banks and the public API only
    rep.run("through-banks", if thorough { 12 } else { 4 }, 600, true, "lattice events and a seam-straddling block digitised and packed into banks (simulation run: uniform calibration), rotated / mirrored by re-encoding through the inverse channel maps: MainEvent::try_from_banks + avalanches() only", |idx, loc| {
        let m = maps();
        let sig = if idx % 4 == 3 {
            let hits: Vec<Hit> = (0..9).map(|j| Hit { wire: (251 + j) % 256, bin: 15 + 4 * j, z: 0.2 + 0.0093 * j as f64, amp: 80.0 + 11.0 * j as f64 }).collect();
            hits_signals(&hits, 0.0045)
        } else {
            let spec = lattice_event((idx * 211 + 5) % 4320, 0);
            signals(m, spec.sigma_z, &ionisation(m, &spec))
        };
        // digitise once, then move the digitised (calibrated) signals around
        let digit = |s: &Signals| -> Signals {
            Signals { wires: s.wires.iter().map(|(w, v)| (*w, digitise_wire(v)[DELAY..].iter().map(|&x| (x as i32 - WIRE_BASELINE as i32) as f64).collect())).collect(), pads: s.pads.iter().map(|(p, v)| (*p, digitise_pad(v)[DELAY..].iter().map(|&x| (x as i32 - PAD_BASELINE as i32) as f64).collect())).collect() }
        };
        let dsig = digit(&sig);
        let via_banks = |s: &Signals| -> Result<Vec<Key>, String> {
            let b = banks(m, s, 1);
            guard(|| {
                let ev = MainEvent::try_from_banks(SIM_RUN, b.iter().map(|(n, d)| (n.as_str(), &d[..]))).expect("well-formed event");
                ev.avalanches().iter().map(|a| (a.t.get::<second>().to_bits(), wire_of(a), a.z.get::<meter>(), a.wire_amplitude.to_bits(), a.pad_amplitude.to_bits())).collect()
            })
        };
        let what = json!({"family": "through-banks", "index": idx});
        let base = match via_banks(&dsig) {
            Ok(b) => b,
            Err(p) => {
                loc.violation(format!("panic:event:{}", panic_site(&p)), json!({"case": what, "panic": p}));
                return;
            }
        };
        loc.note(hash64(&(idx, 8u8)), !base.is_empty(), "avalanches");
        for k in [1usize, 7, 16, 31] {
            let mut want: Vec<Key> = base.iter().map(|a| (a.0, (a.1 + 8 * k) % 256, a.2, a.3, a.4)).collect();
            let mut got = match via_banks(&rotate(&dsig, k)) {
                Ok(g) => g,
                Err(p) => {
                    loc.violation(format!("panic:event:{}", panic_site(&p)), json!({"case": what, "rotation": k, "panic": p}));
                    return;
                }
            };
            sort_keys(&mut want);
            sort_keys(&mut got);
            if want.len() != got.len() || want.iter().zip(&got).any(|(a, b)| !(a.0 == b.0 && a.1 == b.1 && a.2.to_bits() == b.2.to_bits() && a.3 == b.3 && a.4 == b.4)) {
                loc.violation("c13:rotation-not-invariant", json!({"case": what, "rotation_columns": k, "avalanches": [want.len(), got.len()], "via": "banks"}));
                return;
            }
        }
        let mut want: Vec<Key> = base.iter().map(|a| (a.0, a.1, -a.2, a.3, a.4)).collect();
        if let Ok(mut got) = via_banks(&mirror(&dsig)) {
            sort_keys(&mut want);
            sort_keys(&mut got);
            let eq = |a: &Key, b: &Key| a.0 == b.0 && a.1 == b.1 && (a.2 - b.2).abs() <= 1e-9 && a.3 == b.3 && a.4 == b.4;
            if want.len() != got.len() || want.iter().zip(&got).any(|(a, b)| !eq(a, b)) {
                let first = want.iter().zip(&got).find(|(a, b)| !eq(a, b));
                let tie = first.map(|(a, _)| {
                    let tbin = (f64::from_bits(a.0) * 62.5e6).round() as usize;
                    pad_tie_witness(&dsig, wire_column(a.1), tbin)
                }).unwrap_or(false);
                loc.violation(if tie && want.len() == got.len() { "c13:mirror:pad-amplitude-tie" } else { "c13:mirror-not-symmetric" }, json!({"case": what, "via": "banks", "avalanches": [want.len(), got.len()], "bit_equal_pad_amplitudes_in_that_column_and_time_bin": tie}));
            }
        }
    });

    // F5: the full ring
    rep.run("full-ring", 4, 600, true, "all 256 wires carry data (zeros plus avalanches next to the seam and elsewhere): rotations + mirror", |idx, loc| {
        let hits: Vec<Hit> = match idx {
            0 => vec![Hit { wire: 255, bin: 20, z: 0.1, amp: 100.0 }],
            1 => vec![Hit { wire: 255, bin: 20, z: 0.1, amp: 100.0 }, Hit { wire: 0, bin: 20, z: 0.3, amp: 100.0 }, Hit { wire: 3, bin: 26, z: -0.2, amp: 120.0 }],
            2 => (0..32).map(|c| Hit { wire: (c * 8 + 3) % 256, bin: 10 + c, z: -0.5 + 0.03 * c as f64, amp: 90.0 + c as f64 }).collect(),
            _ => vec![Hit { wire: 128, bin: 40, z: 0.0, amp: 200.0 }, Hit { wire: 1, bin: 41, z: 0.5, amp: 150.0 }],
        };
        let mut sig = hits_signals(&hits, 0.004);
        for w in 0..256 {
            sig.wires.entry(w).or_insert_with(|| vec![0.0; WIRE_N - DELAY]);
        }
        check_pattern(&sig, if thorough { &all_rot } else { &few_rot }, true, json!({"family": "full-ring", "pattern": idx}), loc);
    });
    rep.finish()
}
