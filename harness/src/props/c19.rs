//! C19 — vertex / scaler CSVs: one row per main event, in run order, with unwrapped time.
//! Reference CSV model + conformance of the two real binaries on every model trace (engine E3).
use crate::core::*;
use crate::refmodel::midas::*;
use crate::refmodel::sim::*;
use crate::refmodel::*;
use crate::Args;
use alpha_g_physics::MainEvent;
use serde_json::json;
use std::sync::atomic::{AtomicU64, Ordering};
use uom::si::length::meter;

/// event alphabet
#[derive(Clone, Copy, Debug, PartialEq, Eq, Hash)]
pub enum L {
    /// decodable main event, TRG timestamp advanced by the delta with this index
    Main(u8),
    /// main event with a 79-byte TRG bank (undecodable for both programs)
    BadTrg,
    /// main event with two TRG banks (undecodable for both programs)
    TwoTrg,
    /// main event with a valid TRG bank and an unknown bank (undecodable for the vertex program only)
    UnknownBank,
    /// main event without any TRG bank
    NoTrg,
    Chronobox,
    Sequencer,
    UnknownId,
    /// a full simulated event (50 ms of reconstruction)
    Heavy,
}
pub const DELTAS: [u32; 5] = [1, 12345, 0, 1 << 31, u32::MAX];

fn trg_bank(ts: u32, serial: u32) -> Vec<u8> {
    ref_trg_encode(&RefTrg { udp_counter: serial, timestamp: ts, output: serial + 1, input: serial + 4, pulser: serial.wrapping_mul(7), trigger_bitmap: 1, nim_bitmap: 0, esata_bitmap: 0, mlu: false, aw16_prompt: 0, drift_veto: serial + 3, scaledown: serial + 2, aw16_multiplicity: 0, aw16_bus: 0, bsc64_bus: 0, bsc64_multiplicity: 0, coincidence_latch: 0, firmware: 5 })
}

/// Turn a letter sequence into MIDAS events (TRG timestamps chained from `ts0`).
pub fn make_events(seq: &[L], ts0: u32, fmt: BankFmt) -> Vec<MEvent> {
    let mut ts = ts0;
    let mut out = Vec::new();
    for (i, l) in seq.iter().enumerate() {
        let serial = 10 + i as u32 * 3;
        let mut ev = MEvent { id: 1, serial, timestamp: 1_700_000_000 + i as u32, fmt, banks: vec![] };
        match l {
            L::Main(d) => {
                ts = ts.wrapping_add(DELTAS[*d as usize]);
                ev.banks = vec![("ATAT".into(), trg_bank(ts, serial)), ("TRBA".into(), vec![1, 2, 3])];
            }
            L::BadTrg => ev.banks = vec![("ATAT".into(), trg_bank(ts.wrapping_add(999), serial)[..79].to_vec())],
            L::TwoTrg => ev.banks = vec![("ATAT".into(), trg_bank(ts.wrapping_add(5), serial)), ("ATAT".into(), trg_bank(ts.wrapping_add(6), serial))],
            L::UnknownBank => {
                ts = ts.wrapping_add(77);
                ev.banks = vec![("XXXX".into(), vec![0; 4]), ("ATAT".into(), trg_bank(ts, serial))];
            }
            L::NoTrg => ev.banks = vec![("MCVX".into(), vec![0; 8])],
            L::Chronobox => {
                ev.id = 4;
                ev.banks = vec![("CBF1".into(), vec![0, 0, 0, 0xFF]), ("ATAT".into(), trg_bank(ts.wrapping_add(3), serial))];
            }
            L::Sequencer => {
                ev.id = 8;
                ev.banks = vec![("SEQ2".into(), b"<x/>".to_vec())];
            }
            L::UnknownId => {
                ev.id = 99;
                ev.banks = vec![("ATAT".into(), trg_bank(ts.wrapping_add(4), serial))];
            }
            L::Heavy => {
                ts = ts.wrapping_add(4242);
                let mut b = event_banks(&lattice_event(7 + i as u64 * 37, 0), ts);
                b[0].1 = trg_bank(ts, serial);
                ev.banks = b;
                ev.fmt = BankFmt::B32;
            }
        }
        out.push(ev);
    }
    out
}

#[derive(Clone, Copy, Debug, PartialEq)]
pub enum Prog {
    Vertices,
    Scalers,
}
impl Prog {
    fn bin(self) -> &'static str {
        match self {
            Prog::Vertices => "alpha-g-vertices",
            Prog::Scalers => "alpha-g-trg-scalers",
        }
    }
}

#[derive(Clone, Debug)]
pub struct RefRow {
    pub serial: u32,
    /// TRG timestamp if decodable for that program
    pub ts: Option<u32>,
    /// the other columns as printed values
    pub cols: Vec<Option<f64>>,
}

/// Reference CSV model: files already in initial-timestamp order.
pub fn reference(run: u32, files: &[Vec<MEvent>], prog: Prog) -> Vec<RefRow> {
    let mut rows = Vec::new();
    for f in files {
        for e in f.iter().filter(|e| e.id == 1) {
            let trgs: Vec<&Vec<u8>> = e.banks.iter().filter(|b| b.0 == "ATAT").map(|b| &b.1).collect();
            let row = match prog {
                Prog::Scalers => match (trgs.len(), trgs.first().and_then(|b| ref_trg_decode(b))) {
                    (1, Some(t)) => RefRow { serial: e.serial, ts: Some(t.timestamp), cols: vec![Some(t.input as f64), Some(t.drift_veto as f64), Some(t.scaledown as f64), Some(t.pulser as f64), Some(t.output as f64)] },
                    _ => RefRow { serial: e.serial, ts: None, cols: vec![None; 5] },
                },
                Prog::Vertices => match MainEvent::try_from_banks(run, e.banks.iter().map(|(n, d)| (n.as_str(), &d[..]))) {
                    Ok(ev) => {
                        let v = ev.vertex();
                        RefRow { serial: e.serial, ts: Some(ev.timestamp()), cols: vec![v.map(|v| v.x.get::<meter>()), v.map(|v| v.y.get::<meter>()), v.map(|v| v.z.get::<meter>())] }
                    }
                    Err(_) => RefRow { serial: e.serial, ts: None, cols: vec![None; 3] },
                },
            };
            rows.push(row);
        }
    }
    rows
}

/// Compare a CSV with the reference rows. Returns Err((key, detail)).
pub fn compare(csv: &str, want: &[RefRow], prog: Prog) -> Result<(), (String, serde_json::Value)> {
    let rows = csv_rows(csv);
    let header: &[&str] = match prog {
        Prog::Vertices => &["serial_number", "trg_time", "reconstructed_x", "reconstructed_y", "reconstructed_z"],
        Prog::Scalers => &["serial_number", "trg_time", "input", "drift_veto", "scaledown", "pulser", "output"],
    };
    if want.is_empty() {
        if rows.len() > 1 {
            return Err(("csv:row-count".into(), json!({"expected_rows": 0, "got_rows": rows.len() - 1})));
        }
        return Ok(());
    }
    if rows.is_empty() || rows[0] != header {
        return Err(("csv:header".into(), json!({"got": rows.first()})));
    }
    let got = &rows[1..];
    if got.len() != want.len() {
        return Err(("csv:row-count".into(), json!({"expected_rows": want.len(), "got_rows": got.len(), "expected_serials": want.iter().map(|r| r.serial).collect::<Vec<_>>(), "got_serials": got.iter().map(|r| r[0].clone()).collect::<Vec<_>>()})));
    }
    let mut first: Option<(f64, u64)> = None; // (time of the first decodable row, cumulative ticks there)
    let mut cum: u64 = 0;
    let mut prev_ts: Option<u32> = None;
    for (i, (g, w)) in got.iter().zip(want).enumerate() {
        if g.len() != header.len() {
            return Err(("csv:field-count".into(), json!({"row": i, "fields": g.len()})));
        }
        if g[0].parse::<u32>().ok() != Some(w.serial) {
            return Err(("csv:serial-or-order".into(), json!({"row": i, "got": g[0], "expected": w.serial, "expected_serials": want.iter().map(|r| r.serial).collect::<Vec<_>>(), "got_serials": got.iter().map(|r| r[0].clone()).collect::<Vec<_>>()})));
        }
        match w.ts {
            None => {
                if g[1..].iter().any(|f| !f.is_empty()) {
                    return Err(("csv:undecodable-event-has-fields".into(), json!({"row": i, "got": g})));
                }
            }
            Some(ts) => {
                let Ok(t) = g[1].parse::<f64>() else {
                    return Err(("csv:decodable-event-without-time".into(), json!({"row": i, "got": g})));
                };
                if let Some(p) = prev_ts {
                    cum += ts.wrapping_sub(p) as u64;
                }
                prev_ts = Some(ts);
                match first {
                    None => first = Some((t, cum)),
                    Some((t0, c0)) => {
                        let want_dt = (cum - c0) as f64 / 62.5e6;
                        let got_dt = t - t0;
                        if (got_dt - want_dt).abs() > 1e-12 * want_dt.abs() + 1e-12 * t.abs() + 1e-15 {
                            return Err(("csv:trg-time-difference".into(), json!({"row": i, "serial": w.serial, "time_since_first_decodable_row": got_dt, "expected": want_dt, "ticks": cum - c0})));
                        }
                    }
                }
                for (k, (gf, wf)) in g[2..].iter().zip(&w.cols).enumerate() {
                    let ok = match wf {
                        None => gf.is_empty(),
                        Some(x) => gf.parse::<f64>().map(|v| v.to_bits() == x.to_bits() || v == *x).unwrap_or(false),
                    };
                    if !ok {
                        return Err(("csv:column-differs-from-library".into(), json!({"row": i, "column": header[k + 2], "got": gf, "expected": wf})));
                    }
                }
            }
        }
    }
    Ok(())
}

static RUNS: AtomicU64 = AtomicU64::new(0);

pub struct Trace {
    pub run: u32,
    /// files in run order: (letters, lz4?)
    pub files: Vec<Vec<L>>,
    pub fmt: BankFmt,
    pub lz4_mask: u32,
    pub ts0: u32,
    /// 0: serial numbers increase through the run; 1: they restart in every file (repeated numbers); 2: later files
    /// carry smaller numbers than earlier ones
    pub serial_mode: u8,
}

impl Trace {
    pub fn events(&self) -> Vec<Vec<MEvent>> {
        // chain TRG timestamps across files and keep serial numbers distinct per run
        let mut out = Vec::new();
        let mut ts = self.ts0;
        let mut k = 0;
        for f in &self.files {
            let mut evs = make_events(f, ts, self.fmt);
            for e in evs.iter_mut() {
                match self.serial_mode {
                    0 => e.serial += 1000 * k,
                    1 => {}
                    _ => e.serial += 9000 - 1000 * k.min(8),
                }
            }
            // advance ts as make_events did
            for l in f {
                match l {
                    L::Main(d) => ts = ts.wrapping_add(DELTAS[*d as usize]),
                    L::UnknownBank => ts = ts.wrapping_add(77),
                    L::Heavy => ts = ts.wrapping_add(4242),
                    _ => {}
                }
            }
            k += 1;
            out.push(evs);
        }
        out
    }
    pub fn write(&self, dir: &Scratch) -> Vec<std::path::PathBuf> {
        self.events().iter().enumerate().map(|(i, evs)| {
            // later files get later initial timestamps, but names that sort the other way round
            let data = encode_file(self.run, 5000 + 3 * i as u32, 5003 + 3 * i as u32, evs);
            let name = format!("f{}", 9 - i);
            if self.lz4_mask >> i & 1 == 1 { dir.write(&format!("{name}.mid.lz4"), &lz4_frame(&data)) } else { dir.write(&format!("{name}.mid"), &data) }
        }).collect()
    }
}

fn permutation(n: usize, k: u64) -> Vec<usize> {
    crate::props::c04::order_of(n, k, true)
}

/// Run one program on a trace with the files in argument order `perm`, compare with the reference.
fn conform(tr: &Trace, prog: Prog, perm_k: u64, threads: Option<usize>, what: serde_json::Value, tag: &str, loc: &mut Local) -> Option<String> {
    let dir = Scratch::new(tag);
    let paths = tr.write(&dir);
    let perm = permutation(paths.len(), perm_k);
    let args: Vec<_> = perm.iter().map(|&i| paths[i].clone()).collect();
    let out = run_binary(prog.bin(), &dir.0, &args, threads);
    RUNS.fetch_add(1, Ordering::Relaxed);
    let want = reference(tr.run, &tr.events(), prog);
    let h = hash64(&(format!("{:?}", tr.files), tr.lz4_mask, perm_k, prog as u8, threads));
    let detail = |k: serde_json::Value| json!({"case": what, "program": prog.bin(), "files": tr.files.iter().map(|f| format!("{f:?}")).collect::<Vec<_>>(), "argument_order": perm, "threads": threads, "exit": out.status, "stderr": out.stderr.lines().last().unwrap_or(""), "detail": k});
    if out.status != Some(0) || out.csv.is_none() {
        loc.note(h, true, "failed");
        loc.violation(if out.status == Some(101) || out.status.is_none() { format!("csv:{}:panic-or-signal", prog.bin()) } else { format!("csv:{}:wellformed-run-refused", prog.bin()) }, detail(json!(null)));
        return None;
    }
    let csv = out.csv.unwrap();
    loc.note(h, want.len() >= 2, "rows-compared");
    loc.count("rows_compared", want.len() as u64);
    if let Err((key, d)) = compare(&csv, &want, prog) {
        loc.violation(format!("{key}:{}", prog.bin()), detail(d));
    }
    if loc.want_sample() {
        loc.sample(json!({"case": what, "program": prog.bin(), "rows": want.len(), "csv_head": csv.lines().take(5).collect::<Vec<_>>()}));
    }
    Some(csv)
}

fn letters(thorough: bool) -> Vec<L> {
    let mut v = vec![L::Main(0), L::TwoTrg, L::Main(3), L::Main(4), L::BadTrg, L::UnknownBank, L::Chronobox];
    if thorough {
        v.extend([L::Main(2), L::Main(1), L::NoTrg, L::Sequencer, L::UnknownId]);
    }
    v
}

pub fn run(args: &Args) -> i32 {
    let rep = super::report(args, "model_checking");
    rep.set_rule("model: a run = ordered files of events over the alphabet {decodable main event with TRG delta in {1, 12345, 0, 2^31, 2^32-1}, main event with a short TRG bank, with two TRG banks, with an unknown bank, without TRG bank, chronobox event, sequencer event, unknown event id, full simulated event}; model state = (file index, previous timestamp, cumulative ticks); the reference CSV = one row per main event in file order, files by initial timestamp; every model trace is written as real MIDAS files and run through the real alpha-g-vertices and alpha-g-trg-scalers binaries (traces_validated_against_impl = invocations); non-trivial = at least 2 expected rows");
    rep.assume("trg_time is compared through differences to the first decodable row (the statement does not constrain the absolute offset), 1e-12 relative; vertex columns are compared with MainEvent::vertex() computed by the harness on the same banks, bit for bit after parsing the CSV floats");
    rep.assume("interleavings inside rayon are not under a controlled scheduler: the thread-count configurations are enumerated, the interleavings inside each are whatever the OS produced (sampling, labelled as such)");
    let thorough = args.tier == Tier::Thorough;
    let alpha = letters(thorough);
    let na = alpha.len() as u64;
    let depth = 4;

    // 1. all sequences up to the depth bound x all compositions into files x both programs
    let mut plan: Vec<(Vec<L>, Vec<usize>)> = Vec::new(); // (sequence, file sizes)
    let mut states = std::collections::HashSet::new();
    for d in 0..=depth {
        for code in 0..na.pow(d) {
            let seq: Vec<L> = unrank(code, &vec![na; d as usize]).iter().map(|&i| alpha[i as usize]).collect();
            for k in 0..=seq.len() {
                states.insert(seq[..k].to_vec());
            }
            // compositions of d into 1..=4 parts (parts may be empty files only for d = 0)
            let d = d as usize;
            if d == 0 {
                plan.push((seq.clone(), vec![0]));
                continue;
            }
            for mask in 0..(1u32 << (d - 1)) {
                let mut sizes = vec![];
                let mut cur = 1;
                for b in 0..d - 1 {
                    if mask >> b & 1 == 1 {
                        sizes.push(cur);
                        cur = 1;
                    } else {
                        cur += 1;
                    }
                }
                sizes.push(cur);
                if sizes.len() <= 4 {
                    plan.push((seq.clone(), sizes));
                }
            }
        }
    }
    rep.run("sequences-x-file-splits", plan.len() as u64 * 2, 300, true, &format!("every event sequence of length 0..={depth} over {na} letters x every way of cutting it into 1..=4 consecutive files x both programs; files alternate .mid / .mid.lz4, arguments in reverse run order"), |idx, loc| {
        let (seq, sizes) = &plan[(idx / 2) as usize];
        let prog = if idx % 2 == 0 { Prog::Vertices } else { Prog::Scalers };
        let mut files = Vec::new();
        let mut pos = 0;
        for s in sizes {
            files.push(seq[pos..pos + s].to_vec());
            pos += s;
        }
        let tr = Trace { run: 9000 + (idx % 7) as u32, files, fmt: [BankFmt::B32, BankFmt::B16, BankFmt::B32A][(idx / 2 % 3) as usize], lz4_mask: 0b1010, ts0: 0xFFFF_FF00u32.wrapping_add((idx as u32) * 64), serial_mode: 0 };
        let nf = tr.files.len();
        // reverse argument order = last permutation
        let perm_k = (1..=nf as u64).product::<u64>() - 1;
        conform(&tr, prog, perm_k, Some(2), json!({"sequence": format!("{seq:?}"), "file_sizes": sizes}), &format!("s{idx}"), loc);
    });

    // 2. all argument permutations, 2..=4 files
    let perm_seqs: Vec<Vec<Vec<L>>> = vec![
        vec![vec![L::Main(0), L::BadTrg], vec![L::Main(3), L::Chronobox, L::Main(1)]],
        vec![vec![L::BadTrg, L::Main(4)], vec![L::Main(3)], vec![L::UnknownBank, L::Main(0)]],
        vec![vec![L::Main(1)], vec![], vec![L::Main(4), L::Main(4)], vec![L::Sequencer, L::Main(3), L::TwoTrg]],
        vec![vec![L::Chronobox], vec![L::Main(3), L::Main(3)], vec![L::NoTrg], vec![L::Main(2), L::UnknownId, L::Main(0)]],
    ];
    let mut pplan = Vec::new();
    for (i, f) in perm_seqs.iter().enumerate() {
        for k in 0..(1..=f.len() as u64).product::<u64>() {
            for m in [0u32, 0b0101, 0b1111] {
                pplan.push((i, k, m));
            }
        }
    }
    rep.run("argument-permutations", pplan.len() as u64 * 2, 300, true, "4 runs of 2, 3, 4, 4 files: every permutation of the file arguments x lz4 on none / alternate / all files x both programs; serial numbers increasing through the run / restarting in every file / smaller in later files (cycled with the permutation)", |idx, loc| {
        let (i, k, m) = pplan[(idx / 2) as usize];
        let prog = if idx % 2 == 0 { Prog::Vertices } else { Prog::Scalers };
        let tr = Trace { run: 9100, files: perm_seqs[i].clone(), fmt: BankFmt::B32, lz4_mask: m, ts0: 0x7FFF_FFF0, serial_mode: (k % 3) as u8 };
        conform(&tr, prog, k, None, json!({"run": i, "permutation_index": k, "lz4_mask": m}), &format!("p{idx}"), loc);
    });

    // 3. thread counts: byte-identical output
    let heavy_runs: Vec<Vec<Vec<L>>> = vec![
        vec![vec![L::Heavy, L::Main(0), L::Main(1), L::BadTrg, L::Main(0), L::Main(0), L::Main(3), L::Main(0)]],
        vec![vec![L::Main(0), L::Heavy, L::Main(0)], vec![L::Heavy, L::Main(4), L::Main(0), L::Main(0), L::UnknownBank]],
        vec![(0..40).map(|i| if i % 9 == 0 { L::Heavy } else if i % 5 == 0 { L::BadTrg } else { L::Main((i % 5) as u8) }).collect()],
    ];
    rep.run("thread-counts", heavy_runs.len() as u64 * if thorough { 3 } else { 1 }, 600, true, "runs with full simulated events placed before trivial ones (so that a completion-order output would be reordered): RAYON_NUM_THREADS in {1, 2, 5, 16}, outputs must be byte-identical and equal to the reference (thorough: 3 repetitions)", |idx, loc| {
        let i = (idx % heavy_runs.len() as u64) as usize;
        let tr = Trace { run: u32::MAX, files: heavy_runs[i].clone(), fmt: BankFmt::B32, lz4_mask: 0, ts0: 0xFFFF_0000, serial_mode: 0 };
        let mut outs = Vec::new();
        for t in [1usize, 2, 5, 16] {
            // same scratch tag => same paths => same command line in the CSV header
            outs.push((t, conform(&tr, Prog::Vertices, 0, Some(t), json!({"run": i, "threads": t, "repetition": idx / heavy_runs.len() as u64}), &format!("t{idx}"), loc)));
        }
        if outs.iter().any(|o| o.1 != outs[0].1) {
            loc.violation("csv:alpha-g-vertices:output-depends-on-thread-count", json!({"run": i, "sizes": outs.iter().map(|o| (o.0, o.1.as_ref().map(|s| s.len()))).collect::<Vec<_>>()}));
        }
    });

    // 4. long files crossing the 2^32 wrap several times
    rep.run("many-wraps", 6 * 2, 300, true, "1-3 files of 20-60 main events with deltas cycling through {2^31, 2^32-1, 12345, 0, 1} and undecodable events at the start, middle and end: both programs", |idx, loc| {
        let prog = if idx % 2 == 0 { Prog::Vertices } else { Prog::Scalers };
        let k = idx / 2;
        let n = 20 + 8 * k as usize;
        let seq: Vec<L> = (0..n).map(|i| if i == 0 || i == n / 2 || i == n - 1 || i == n / 2 + 1 { if i % 2 == 0 { L::BadTrg } else { L::TwoTrg } } else if i % 7 == 3 { L::Chronobox } else { L::Main([3u8, 4, 1, 2, 0, 3, 3][(i + k as usize) % 7]) }).collect();
        let nf = 1 + (k % 3) as usize;
        let per = n.div_ceil(nf);
        let files: Vec<Vec<L>> = seq.chunks(per).map(|c| c.to_vec()).collect();
        let tr = Trace { run: 9200, files, fmt: BankFmt::B32A, lz4_mask: 0b10, ts0: 17, serial_mode: (k % 3) as u8 };
        conform(&tr, prog, 0, Some(5), json!({"events": n, "files": nf}), &format!("w{idx}"), loc);
    });

    // 5. refusals
    #[derive(Clone, Debug)]
    enum Bad {
        TwoRuns(usize),
        DupInitial(Vec<u32>),
        Ext(&'static str),
    }
    let mut bads: Vec<Bad> = vec![Bad::TwoRuns(2), Bad::TwoRuns(3), Bad::TwoRuns(4)];
    for ts in [vec![5, 5], vec![5, 5, 6], vec![4, 5, 5], vec![5, 6, 5], vec![4, 5, 5, 6], vec![4, 5, 6, 6], vec![4, 4, 5, 6], vec![6, 5, 4, 5], vec![5, 5, 5]] {
        bads.push(Bad::DupInitial(ts));
    }
    for e in ["", ".txt", ".MID", ".mid.gz", ".lz4x", ".mid.LZ4", ".midx"] {
        bads.push(Bad::Ext(e));
    }
    let nbad = bads.len() as u64;
    rep.run("refusals", nbad * 2 * 2, 300, true, "files of two run numbers (2-4 files); equal initial timestamps at every sorted position among 2-4 files; unknown extensions: x both programs x two argument orders: non-zero exit and no CSV", |idx, loc| {
        let d = unrank(idx, &[2, 2, nbad]);
        let prog = if d[0] == 0 { Prog::Vertices } else { Prog::Scalers };
        let bad = &bads[d[2] as usize];
        let dir = Scratch::new(&format!("r{idx}"));
        let evs = make_events(&[L::Main(0), L::Main(1)], 100, BankFmt::B32);
        let mut paths = Vec::new();
        match bad {
            Bad::TwoRuns(n) => {
                for i in 0..*n {
                    paths.push(dir.write(&format!("a{i}.mid"), &encode_file(if i == n - 1 { 9301 } else { 9300 }, 100 + i as u32, 101 + i as u32, &evs)));
                }
            }
            Bad::DupInitial(ts) => {
                for (i, t) in ts.iter().enumerate() {
                    // final = initial, so that the files would chain correctly if the duplicate went unnoticed
                    paths.push(dir.write(&format!("a{i}.mid"), &encode_file(9300, *t, *t, &evs)));
                }
            }
            Bad::Ext(e) => {
                paths.push(dir.write("a0.mid", &encode_file(9300, 100, 101, &evs)));
                paths.push(dir.write(&format!("a1{e}"), &encode_file(9300, 101, 102, &evs)));
            }
        }
        if d[1] == 1 {
            paths.reverse();
        }
        let out = run_binary(prog.bin(), &dir.0, &paths, None);
        RUNS.fetch_add(1, Ordering::Relaxed);
        loc.note(hash64(&(idx, 9u8)), true, if out.status == Some(0) { "accepted" } else { "refused" });
        let what = json!({"case": format!("{bad:?}"), "program": prog.bin(), "reversed": d[1] == 1, "exit": out.status, "stderr": out.stderr.lines().last().unwrap_or("")});
        if out.status == Some(0) || out.csv.is_some() {
            let kind = match bad {
                Bad::TwoRuns(_) => "two-run-numbers",
                Bad::DupInitial(_) => "duplicate-initial-timestamp",
                Bad::Ext(_) => "unknown-extension",
            };
            loc.violation(format!("csv:{}:not-refused:{kind}", prog.bin()), what);
        } else if out.status == Some(101) || out.status.is_none() {
            loc.violation(format!("csv:{}:panic-or-signal", prog.bin()), what);
        }
    });

    let runs = RUNS.load(Ordering::Relaxed);
    rep.cov("states", json!(states.len()));
    rep.cov("transitions", json!(states.len().saturating_sub(1)));
    rep.cov("traces_validated_against_impl", json!(runs));
    rep.cov("rows_compared", json!(rep.get_extra("rows_compared")));
    rep.finish()
}
