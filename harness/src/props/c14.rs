//! C14 — reconstruction stages are total on physical inputs and return finite geometry.
use crate::core::*;
use crate::props::c02::panic_site;
use crate::props::recon::*;
use crate::Args;
use alpha_g_physics::reconstruction::Track;
use serde_json::json;
use uom::si::length::meter;

fn check_vertexing(tracks: Vec<Track>, what: serde_json::Value, loc: &mut Local) {
    let n = tracks.len();
    match vertices(tracks) {
        Err(p) => loc.violation(format!("panic:find-vertices:{}", panic_site(&p)), json!({"case": what, "panic": p})),
        Ok(r) => {
            if let Some(v) = &r.primary {
                let c = [v.position.x.get::<meter>(), v.position.y.get::<meter>(), v.position.z.get::<meter>()];
                if c.iter().any(|x| !x.is_finite()) {
                    loc.violation("recon:vertex-not-finite", json!({"case": what, "position": format!("{c:?}")}));
                }
                for (t, tt) in &v.tracks {
                    if !(*tt >= -std::f64::consts::PI && *tt <= std::f64::consts::PI) {
                        loc.violation("recon:vertex-track-t-out-of-range", json!({"case": what, "t": tt}));
                    }
                    if let Err(e) = track_finite(t) {
                        loc.violation("recon:track-not-finite", json!({"case": what, "what": e}));
                    }
                }
            }
            let _ = n;
        }
    }
}

pub fn run(args: &Args) -> i32 {
    let rep = super::report(args, "exploration");
    rep.set_rule("every case = one point set of the degenerate-geometry lattice, (a) turned into a cluster through the cfg-guarded constructor and fitted, (b) given to the public cluster_spacepoints and every resulting cluster fitted, then the fitted tracks given to find_vertices; all inside catch_unwind; oracle: returns, Ok(track) or the no-initial-parameters error, finite helix parameters, t_inner / t_outer in [-pi, pi], finite vertex; non-trivial = at least 13 points; distinct by hash of the point bit patterns");
    rep.assume("decided on the lattice only: 12 degenerate families x 18 perturbation decades x 4 ways of applying it x 5 orientations x sizes; values between lattice points are not covered");
    let thorough = args.tier == Tier::Thorough;
    let sizes: Vec<usize> = if thorough { vec![13, 14, 15, 17, 20, 40, 200] } else { vec![13, 20] };
    let ns = sizes.len() as u64;
    let radices = [FAMILIES, 18, 4, 5, ns];
    rep.run("degenerate-lattice", product(&radices), 300, true, "12 families (radial line, chord, z-only, circle through the origin, equal radii, one point repeated, two points repeated, three points + repeats, dyadic grid, radius extremes 0.05/0.25, helix with pitch from the 44-value alphabet, deterministic cloud) x 18 perturbation decades (0, 1e-18..1e-2) x 4 ways x 5 orientations x sizes", |idx, loc| {
        let d = unrank(idx, &radices);
        let n = sizes[d[4] as usize];
        let pts = degenerate(d[0], EPS[d[1] as usize], d[2], d[3], n);
        let h = hash64(&pts.iter().map(bits3).collect::<Vec<_>>());
        let what = json!({"family": d[0], "eps": EPS[d[1] as usize], "way": d[2], "orientation": d[3], "points": n});
        let mut tracks = Vec::new();
        match fit(pts.clone()) {
            Err(p) => {
                loc.note(h, true, "panic");
                loc.violation(format!("panic:track-fit:{}", panic_site(&p)), json!({"case": what, "panic": p}));
                return;
            }
            Ok(Err(_)) => loc.note(h, true, "no-initial-parameters"),
            Ok(Ok(t)) => {
                loc.note(h, true, "track");
                if let Err(e) = track_finite(&t) {
                    loc.violation("recon:track-not-finite", json!({"case": what, "what": e}));
                }
                tracks.push(t);
            }
        }
        // hook-free path
        match cluster(pts) {
            Err(p) => loc.violation(format!("panic:clustering:{}", panic_site(&p)), json!({"case": what, "panic": p})),
            Ok((clusters, _)) => {
                for c in clusters {
                    match guard(|| Track::try_from(c).map_err(|e| e.to_string())) {
                        Err(p) => loc.violation(format!("panic:track-fit:{}", panic_site(&p)), json!({"case": what, "via": "cluster_spacepoints", "panic": p})),
                        Ok(Ok(t)) => {
                            if let Err(e) = track_finite(&t) {
                                loc.violation("recon:track-not-finite", json!({"case": what, "via": "cluster_spacepoints", "what": e}));
                            }
                            tracks.push(t);
                        }
                        Ok(Err(_)) => {}
                    }
                }
            }
        }
        check_vertexing(tracks, what.clone(), loc);
        if loc.want_sample() {
            loc.sample(what);
        }
    });

    // points at EXACTLY the clustering distance (3 cm) from a neighbour, and one ulp either side: along z (z0 = 0 and
    // z0 = -0.03 make the difference exact), along r, and for a whole second segment
    rep.run("exact-linkage-distance", 3 * 3 * 4, 300, true, "a 15-point radial line plus {one point, a 14-point copy of the line, two points on either side} displaced by exactly 3 cm (and +-1 ulp) along z from z0 in {0, -0.03} or along r: clustering, fits and vertexing return", |idx, loc| {
        let d = unrank(idx, &[3, 3, 4]);
        let gap = [0.03, f64::from_bits(0.03f64.to_bits() + 1), f64::from_bits(0.03f64.to_bits() - 1)][d[0] as usize];
        let (z0, along_r) = [(0.0, false), (-0.03, false), (0.0, true), (0.25, false)][d[2] as usize];
        let line: Vec<alpha_g_physics::SpacePoint> = (0..15).map(|i| sp(0.11 + 0.002 * i as f64, 0.9, z0)).collect();
        let shifted = |p: &alpha_g_physics::SpacePoint| if along_r { sp(p.r.value + 0.002 * 14.0 + gap, 0.9, z0) } else { sp(p.r.value, 0.9, z0 + gap) };
        let mut pts = line.clone();
        match d[1] {
            0 => pts.push(shifted(&line[0])),
            1 => pts.extend(line.iter().take(14).map(shifted)),
            _ => {
                pts.push(shifted(&line[3]));
                pts.push(if along_r { sp(line[0].r.value - gap, 0.9, z0) } else { sp(line[3].r.value, 0.9, z0 - gap) });
            }
        }
        let what = json!({"family": "exact-linkage-distance", "gap_m": gap, "z0": z0, "along_r": along_r, "shape": d[1]});
        loc.note(hash64(&pts.iter().map(bits3).collect::<Vec<_>>()), true, "evaluated");
        let mut tracks = Vec::new();
        match cluster(pts) {
            Err(p) => loc.violation(format!("panic:clustering:{}", panic_site(&p)), json!({"case": what, "panic": p})),
            Ok((clusters, _)) => {
                for c in clusters {
                    match guard(|| Track::try_from(c).map_err(|e| e.to_string())) {
                        Err(p) => loc.violation(format!("panic:track-fit:{}", panic_site(&p)), json!({"case": what, "panic": p})),
                        Ok(Ok(t)) => tracks.push(t),
                        Ok(Err(_)) => {}
                    }
                }
            }
        }
        check_vertexing(tracks, what, loc);
    });

    // helices of every pitch
    rep.run("helix-pitches", 44 * 5 * 3, 300, true, "points on a helix (radius 0.64 m around (-0.5, 0)) for all 44 pitches (0, -0, +-subnormal, +-1e-17..+-1e2, +-2.2e-16, +-2.3e-16) x 5 orientations x sizes {13, 20, 60}", |idx, loc| {
        let d = unrank(idx, &[44, 5, 3]);
        let pitch = PITCHES[d[0] as usize];
        let n = [13usize, 20, 60][d[2] as usize];
        let rot = d[1] as f64 * 1.3;
        let pts: Vec<_> = (0..n).map(|i| {
            let a = 0.45 * i as f64 / (n - 1) as f64;
            let (x, y) = (-0.5 + 0.64 * a.cos(), 0.64 * a.sin());
            sp_xy(rot.cos() * x - rot.sin() * y, rot.sin() * x + rot.cos() * y, (pitch * a / (2.0 * std::f64::consts::PI)).clamp(-1.3, 1.3))
        }).collect();
        let what = json!({"pitch": pitch, "points": n, "orientation": d[1]});
        let h = hash64(&pts.iter().map(bits3).collect::<Vec<_>>());
        match fit(pts) {
            Err(p) => {
                loc.note(h, true, "panic");
                loc.violation(format!("panic:track-fit:{}", panic_site(&p)), json!({"case": what, "panic": p}));
            }
            Ok(Err(_)) => loc.note(h, true, "no-initial-parameters"),
            Ok(Ok(t)) => {
                loc.note(h, true, "track");
                if let Err(e) = track_finite(&t) {
                    loc.violation("recon:track-not-finite", json!({"case": what, "what": e}));
                }
                check_vertexing(vec![t, template_tracks()[1]], what, loc);
            }
        }
    });

    // big point sets through the public clustering
    let big: Vec<usize> = if thorough { vec![0, 1, 2, 12, 13, 100, 500, 2000] } else { vec![0, 1, 12, 13, 300] };
    rep.run("clouds", big.len() as u64 * 4, 600, true, "deterministic clouds of 0..=2000 points (r in [0.05, 0.25], |z| <= 1.3) mixed with 0..3 ideal tracks, through cluster_spacepoints -> fit -> find_vertices", |idx, loc| {
        let n = big[(idx / 4) as usize];
        let k = idx % 4;
        let mut pts = cloud(n, idx);
        for j in 0..k {
            pts.extend(ideal_track([0.002, -0.001, 0.1 * j as f64], 0.7 + 2.1 * j as f64, 0.6 + j as f64, if j % 2 == 0 { 1.0 } else { -1.0 }, 0.3 - 0.3 * j as f64, 25));
        }
        let what = json!({"cloud_points": n, "ideal_tracks": k});
        let h = hash64(&pts.iter().map(bits3).collect::<Vec<_>>());
        match cluster(pts) {
            Err(p) => {
                loc.note(h, true, "panic");
                loc.violation(format!("panic:clustering:{}", panic_site(&p)), json!({"case": what, "panic": p}));
            }
            Ok((clusters, _)) => {
                loc.note(h, n + 25 * k as usize >= 13, if clusters.is_empty() { "no-clusters" } else { "clusters" });
                let mut tracks = Vec::new();
                for c in clusters {
                    match guard(|| Track::try_from(c).map_err(|e| e.to_string())) {
                        Err(p) => loc.violation(format!("panic:track-fit:{}", panic_site(&p)), json!({"case": what, "panic": p})),
                        Ok(Ok(t)) => {
                            if let Err(e) = track_finite(&t) {
                                loc.violation("recon:track-not-finite", json!({"case": what, "what": e}));
                            }
                            tracks.push(t);
                        }
                        Ok(Err(_)) => {}
                    }
                }
                check_vertexing(tracks, what, loc);
            }
        }
    });

    // track sets with ties
    let ms = multisets(7, if thorough { 8 } else { 5 });
    rep.run("track-multisets", ms.len() as u64, 300, true, "every multiset of size 0..=8 (quick: 5) drawn from 7 template tracks (through the axis, back to back, zero pitch, an identical copy, huge radius with subnormal pitch, 2.6 cm off axis with large pitch) into find_vertices", |idx, loc| {
        let t = template_tracks();
        let set: Vec<Track> = ms[idx as usize].iter().map(|&i| t[i]).collect();
        loc.note(hash64(&ms[idx as usize]), set.len() >= 2, "vertexed");
        check_vertexing(set, json!({"templates": ms[idx as usize]}), loc);
    });
    rep.finish()
}
