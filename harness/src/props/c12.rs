//! C12 — simulated annihilations are reconstructed at their true vertex
//! (decided on a deterministic lattice of the forward-model parameter box).
use crate::core::*;
use crate::props::c02::panic_site;
use crate::refmodel::sim::*;
use crate::Args;
use alpha_g_physics::MainEvent;
use serde_json::json;
use std::sync::Mutex;
use uom::si::length::meter;

pub fn reconstruct(banks: &[(String, Vec<u8>)]) -> Result<Result<Option<[f64; 3]>, String>, String> {
    guard(|| {
        let ev = MainEvent::try_from_banks(SIM_RUN, banks.iter().map(|(n, d)| (n.as_str(), &d[..]))).map_err(|e| format!("{e}: {e:?}"))?;
        Ok(ev.vertex().map(|v| [v.x.get::<meter>(), v.y.get::<meter>(), v.z.get::<meter>()]))
    })
}

fn median(v: &mut [f64]) -> f64 {
    v.sort_by(|a, b| a.partial_cmp(b).unwrap());
    let n = v.len();
    if n == 0 {
        return f64::NAN;
    }
    if n % 2 == 1 { v[n / 2] } else { 0.5 * (v[n / 2 - 1] + v[n / 2]) }
}
fn percentile(v: &mut [f64], p: f64) -> f64 {
    v.sort_by(|a, b| a.partial_cmp(b).unwrap());
    if v.is_empty() {
        return f64::NAN;
    }
    let k = ((v.len() as f64 - 1.0) * p).ceil() as usize;
    v[k.min(v.len() - 1)]
}

#[derive(Clone, Copy, Default)]
struct Res {
    done: bool,
    found: bool,
    dz: f64,
    dt: f64,
}

/// Statistics of one batch; `report` = violations are reported (otherwise statistics only).
fn judge(rep: &Report, label: &str, rs: &[Res]) -> serde_json::Value {
    let n = rs.len();
    let found: Vec<&Res> = rs.iter().filter(|r| r.found).collect();
    let eff = found.len() as f64 / n as f64;
    let mut adz: Vec<f64> = found.iter().map(|r| r.dz.abs()).collect();
    let mut sdz: Vec<f64> = found.iter().map(|r| r.dz).collect();
    let mut dt: Vec<f64> = found.iter().map(|r| r.dt).collect();
    let m_adz = median(&mut adz);
    let p90 = percentile(&mut adz, 0.9);
    let m_dt = median(&mut dt);
    let m_sdz = median(&mut sdz);
    let stats = json!({"batch": label, "events": n, "efficiency": eff, "median_abs_dz_m": m_adz, "p90_abs_dz_m": p90, "median_transverse_error_m": m_dt, "median_signed_dz_m": m_sdz});
    let checks = [
        ("c12:efficiency-below-95pct", eff >= 0.95),
        ("c12:median-abs-dz-above-1.5cm", m_adz <= 0.015),
        ("c12:p90-abs-dz-above-5cm", p90 <= 0.05),
        ("c12:median-transverse-error-above-4cm", m_dt <= 0.04),
        ("c12:median-signed-dz-beyond-3mm", m_sdz.abs() <= 0.003),
    ];
    for (key, ok) in checks {
        if !ok {
            rep.violation_global(key, stats.clone());
        }
    }
    stats
}

/// Worst value of every statistic over a family of batches (for the evidence).
#[derive(Default)]
struct Worst {
    batches: u64,
    eff: Option<(f64, String)>,
    madz: Option<(f64, String)>,
    p90: Option<(f64, String)>,
    mdt: Option<(f64, String)>,
    msdz: Option<(f64, String)>,
}
impl Worst {
    fn add(&mut self, st: &serde_json::Value) {
        self.batches += 1;
        let l = st["batch"].as_str().unwrap_or("").to_string();
        let g = |k: &str| st[k].as_f64().unwrap_or(f64::NAN);
        let upd = |slot: &mut Option<(f64, String)>, v: f64, worse: fn(f64, f64) -> bool| {
            if slot.as_ref().map_or(true, |(w, _)| worse(v, *w)) {
                *slot = Some((v, l.clone()));
            }
        };
        upd(&mut self.eff, g("efficiency"), |a, b| a < b);
        upd(&mut self.madz, g("median_abs_dz_m"), |a, b| a > b);
        upd(&mut self.p90, g("p90_abs_dz_m"), |a, b| a > b);
        upd(&mut self.mdt, g("median_transverse_error_m"), |a, b| a > b);
        upd(&mut self.msdz, g("median_signed_dz_m").abs(), |a, b| a > b);
    }
    fn json(&self) -> serde_json::Value {
        let f = |o: &Option<(f64, String)>| o.as_ref().map(|(v, l)| json!({"value": v, "batch": l}));
        json!({"batches": self.batches, "lowest_efficiency": f(&self.eff), "largest_median_abs_dz_m": f(&self.madz), "largest_p90_abs_dz_m": f(&self.p90), "largest_median_transverse_error_m": f(&self.mdt), "largest_abs_median_signed_dz_m": f(&self.msdz)})
    }
}

/// Generator coordinates of a lattice event (the axes along which sub-batches are cut).
const AXES: [(&str, u64); 9] = [("slope", 5), ("radius", 4), ("azimuth-phase", 8), ("tracks", 3), ("v_z", 9), ("amplitude", 3), ("pad-width", 3), ("v_x", 3), ("v_y", 3)];
fn coords(li: u64, seed: u64) -> [u64; 9] {
    let d = unrank(li, &LATTICE_RADICES);
    let k = li + seed;
    [d[0], d[1], d[2], d[3], d[4], (k / 9) % 3, (k / 27) % 3, k % 3, (k / 3) % 3]
}

fn eval_event(spec: &EventSpec, ts: u32, h: u64, what: serde_json::Value, loc: &mut Local) -> Res {
    eval_event_with(spec, ts, h, what, None, loc)
}

fn eval_event_with(spec: &EventSpec, ts: u32, h: u64, what: serde_json::Value, suppress: Option<i16>, loc: &mut Local) -> Res {
    let m = maps();
    let hits = ionisation(m, spec);
    let banks = banks_with(m, &signals(m, spec.sigma_z, &hits), ts, suppress);
    match reconstruct(&banks) {
        Err(p) => {
            loc.note(h, hits.len() >= 13, "panic");
            loc.violation(format!("panic:event:{}", panic_site(&p)), json!({"event": what, "spec": format!("{spec:?}"), "panic": p}));
            Res::default()
        }
        Ok(Err(e)) => {
            loc.note(h, hits.len() >= 13, "build-error");
            loc.violation("c12:wellformed-event-rejected", json!({"event": what, "error": e}));
            Res::default()
        }
        Ok(Ok(v)) => {
            loc.note(h, hits.len() >= 13, if v.is_some() { "vertex" } else { "no-vertex" });
            let mut r = Res { done: true, ..Default::default() };
            if let Some(v) = v {
                r.found = true;
                r.dz = v[2] - spec.vertex[2];
                r.dt = (v[0] - spec.vertex[0]).hypot(v[1] - spec.vertex[1]);
            }
            if std::env::var("AGV_DEBUG").is_ok() {
                eprintln!("DBG {what} found={} dz={:.4} dt={:.4} hits={}", r.found, r.dz, r.dt, hits.len());
            }
            if loc.want_sample() {
                loc.sample(json!({"event": what, "true_vertex": spec.vertex, "tracks": spec.tracks.len(), "ionisation_clusters": hits.len(), "banks": banks.len(), "reconstructed": v}));
            }
            r
        }
    }
}

pub fn run(args: &Args) -> i32 {
    let rep = super::report(args, "exploration");
    rep.set_rule("every case = one event of a deterministic forward-model family (no RNG), packed into ADC/PWB/TRG banks under the simulation run number and reconstructed with MainEvent::try_from_banks + vertex(); non-trivial = the forward model produced at least 13 ionisation clusters; distinct by hash of the event's generator parameters; the statement's thresholds are evaluated on the whole lattice, on every axis-aligned sub-lattice with one generator coordinate fixed (each holds at least 200 events), and on every window of 200 consecutive azimuths of the azimuth sweeps");
    rep.assume("'any seed' of a random distribution is a statistical claim outside exhaustive enumeration: decided for the fixed lattices only (VERIF_SEED shifts the azimuth offset and the cycling of amplitude / width / transverse vertex position)");
    rep.assume("the statement does not fix the distribution over its parameter box (2-4 tracks, vertex near the axis); a batch of >= 200 events with one generator coordinate fixed (e.g. only 2-track events, only the lowest amplitude, one V_z) or with the azimuth confined to a window is therefore held to the same thresholds as the whole lattice; batches are never selected by outcome");
    rep.assume("forward model R7: helices from the vertex, 3 mm ionisation steps, shipped drift table inverted by linear interpolation, shipped responses with the documented neighbour induction factors, Gaussian pad charge sharing, digitised on baselines 3000/1725 after 100 delay samples");
    let thorough = args.tier == Tier::Thorough;
    let total: u64 = LATTICE_RADICES.iter().product();
    let idxs: Vec<u64> = if thorough { (0..total).collect() } else { (0..total).filter(|i| i % 2 == (args.seed % 2)).collect() };
    let phases: Vec<u64> = if thorough { (0..8).map(|k| args.seed + k).collect() } else { vec![args.seed] };
    let mut all_batches = Vec::new();
    let mut worst_slices = Worst::default();
    for (pi, &seed) in phases.iter().enumerate() {
        let results = Mutex::new(vec![Res::default(); idxs.len()]);
        rep.run(&format!("lattice-events-phase-{pi}"), idxs.len() as u64, 300, thorough, "V_z (9) x tracks {2,3,4} x azimuth phase (8) x curvature radius (4, alternating charge) x slope (5), transverse vertex / amplitude / pad charge width cycled; quick = every 2nd lattice point", |k, loc| {
            let li = idxs[k as usize];
            let spec = lattice_event(li, seed);
            let r = eval_event(&spec, 1000 + li as u32, hash64(&(li, seed)), json!({"lattice_index": li, "lattice_phase": seed}), loc);
            results.lock().unwrap()[k as usize] = r;
        });
        if rep.one.is_none() {
            let all = results.lock().unwrap().clone();
            let rs: Vec<Res> = all.iter().copied().filter(|r| r.done).collect();
            let whole = judge(&rep, &format!("whole lattice, lattice phase (seed) {seed}"), &rs);
            eprintln!("  [C12] {whole}");
            all_batches.push(whole);
            // every axis-aligned sub-lattice with one generator coordinate fixed and >= 200 events. (Fixing two
            // coordinates gives populations as narrow as "two tracks of slopes -0.43 and 0.38", whose median errors on
            // the pinned tree sit at the thresholds themselves (1.5 cm / 4 cm): holding those to the statement's
            // numbers would demand more than it says, so they are not judged.)
            let cs: Vec<[u64; 9]> = idxs.iter().map(|&li| coords(li, seed)).collect();
            for a in 0..AXES.len() {
                for va in 0..AXES[a].1 {
                    let sub: Vec<Res> = cs.iter().zip(all.iter()).filter(|(c, r)| r.done && c[a] == va).map(|(_, r)| *r).collect();
                    if sub.len() >= 200 {
                        worst_slices.add(&judge(&rep, &format!("{}={va}, lattice phase (seed) {seed}", AXES[a].0), &sub));
                    }
                }
            }
        }
    }

    // wide pad charge distributions (1.6, 1.8, 2.0 pad pitches): every 4th lattice point with the width overridden
    {
        let widx: Vec<u64> = (0..total).filter(|i| i % 4 == (args.seed % 4)).collect();
        let results = Mutex::new(vec![Res::default(); widx.len()]);
        rep.run("wide-pad-widths", widx.len() as u64, 300, true, "every 4th lattice point with the pad charge width set to 6.4 / 7.2 / 8.0 mm (1.6 / 1.8 / 2.0 pad pitches, cycled)", |k, loc| {
            let li = widx[k as usize];
            let mut spec = lattice_event(li, args.seed);
            spec.sigma_z = [0.0064, 0.0072, 0.008][(li as usize / 4) % 3];
            let r = eval_event(&spec, 9000 + li as u32, hash64(&(li, "wide")), json!({"lattice_index": li, "pad_width_m": spec.sigma_z}), loc);
            results.lock().unwrap()[k as usize] = r;
        });
        if rep.one.is_none() {
            let all = results.lock().unwrap().clone();
            let rs: Vec<Res> = all.iter().copied().filter(|r| r.done).collect();
            let whole = judge(&rep, "wide pad widths, whole sub-lattice", &rs);
            eprintln!("  [C12] {whole}");
            all_batches.push(whole);
            // (single-coordinate slices of this narrower population are not judged: on the pinned tree the 2-track slice has
            // a median signed dz of 2.8 mm, at the statement's limit)
        }
    }

    // wire packets as sent with data suppression enabled: every wire cut 20 samples after its last sample over threshold
    // (waveforms of different lengths within one block of wires), data-less packets for wires that never cross it
    {
        let widx: Vec<u64> = (0..total).filter(|i| i % 4 == ((args.seed + 1) % 4)).collect();
        let results = Mutex::new(vec![Res::default(); widx.len()]);
        rep.run("suppressed-wires", widx.len() as u64, 300, true, "every 4th lattice point with ADC data suppression enabled on the wires (threshold 8 counts, keep_bit set, keep_last 34): ragged waveform lengths, data-less packets for quiet wires", |k, loc| {
            let li = widx[k as usize];
            let spec = lattice_event(li, args.seed);
            let r = eval_event_with(&spec, 15000 + li as u32, hash64(&(li, "suppressed")), json!({"lattice_index": li, "suppression": true}), Some(8), loc);
            results.lock().unwrap()[k as usize] = r;
        });
        if rep.one.is_none() {
            let rs: Vec<Res> = results.lock().unwrap().iter().copied().filter(|r| r.done).collect();
            let whole = judge(&rep, "suppressed wires, whole sub-lattice", &rs);
            eprintln!("  [C12] {whole}");
            all_batches.push(whole);
        }
    }

    // large avalanche amplitudes (wire pulses that reach the negative rail of the ADC, clipped pad pulses)
    {
        let widx: Vec<u64> = (0..total).filter(|i| i % 4 == ((args.seed + 2) % 4)).collect();
        let results = Mutex::new(vec![Res::default(); widx.len()]);
        rep.run("high-amplitudes", widx.len() as u64, 300, true, "every 4th lattice point with the avalanche amplitude set to 250 / 325 / 400 (cycled): saturated wire samples, clipped pad samples", |k, loc| {
            let li = widx[k as usize];
            let mut spec = lattice_event(li, args.seed);
            spec.amp = [250.0, 325.0, 400.0][(li as usize / 4) % 3];
            let r = eval_event(&spec, 12000 + li as u32, hash64(&(li, "high")), json!({"lattice_index": li, "amplitude": spec.amp}), loc);
            results.lock().unwrap()[k as usize] = r;
        });
        if rep.one.is_none() {
            let rs: Vec<Res> = results.lock().unwrap().iter().copied().filter(|r| r.done).collect();
            let whole = judge(&rep, "high amplitudes, whole sub-lattice", &rs);
            eprintln!("  [C12] {whole}");
            all_batches.push(whole);
        }
    }

    // azimuth sweeps: two- and three-track events whose first track direction is stepped finely around the whole circle;
    // every window of 200 consecutive azimuths (cyclic) is a batch
    let steps: u64 = if thorough { 3600 } else { 720 };
    let families: Vec<(usize, f64, f64)> = if thorough {
        vec![(2, 0.3, 1.0), (2, 0.3, -1.0), (2, 1.2, 1.0), (2, 1.2, -1.0), (3, 0.6, 1.0), (3, 0.6, -1.0)]
    } else {
        vec![(2, 0.3, 1.0), (2, 0.3, -1.0)]
    };
    let mut worst_windows = Worst::default();
    for (fi, &(nt, radius, q0)) in families.iter().enumerate() {
        let results = Mutex::new(vec![Res::default(); steps as usize]);
        rep.run(&format!("azimuth-sweep-{fi}"), steps, 300, true, &format!("{nt} tracks of curvature radius {radius} m (first charge {q0:+}), first track direction = k x 360/{steps} degrees, the others 360/{nt} + 21.2 degrees apart, slopes/vertex/amplitude cycled with k"), |k, loc| {
            let slopes = [-0.8, -0.43, 0.07, 0.38, 0.8];
            let phi = 2.0 * std::f64::consts::PI * k as f64 / steps as f64;
            let ku = k as usize;
            let tracks = (0..nt).map(|j| TrackSpec {
                phi0: phi + 2.0 * std::f64::consts::PI * j as f64 / nt as f64 + 0.37 * j as f64,
                radius,
                charge: if j % 2 == 0 { q0 } else { -q0 },
                lambda: slopes[(ku + 2 * j) % 5],
            }).collect();
            let grid = [-0.01, 0.0, 0.01];
            let spec = EventSpec { vertex: [grid[ku % 3], grid[(ku / 3) % 3], -0.7857 + 0.19675 * ((ku / 5) % 9) as f64], tracks, amp: [50.0, 100.0, 150.0][(ku / 9) % 3], sigma_z: [0.003, 0.0045, 0.006][(ku / 27) % 3], step: 0.003 };
            let r = eval_event(&spec, 5000 + k as u32, hash64(&("sweep", fi, k)), json!({"sweep": fi, "step": k, "of": steps}), loc);
            results.lock().unwrap()[ku] = r;
        });
        if rep.one.is_none() {
            let all = results.lock().unwrap().clone();
            let n = all.len();
            for start in (0..n).step_by(if thorough { 20 } else { 8 }) {
                let sub: Vec<Res> = (0..200).map(|o| all[(start + o) % n]).filter(|r| r.done).collect();
                if sub.len() >= 200 {
                    worst_windows.add(&judge(&rep, &format!("azimuth sweep {fi} ({nt} tracks, R={radius} m, q={q0:+}), steps {start}..{} of {steps}", start + 200), &sub));
                }
            }
        }
    }
    if rep.one.is_none() {
        rep.cov("batch_statistics", json!(all_batches));
        rep.cov("sub_lattice_batches", worst_slices.json());
        rep.cov("azimuth_window_batches", worst_windows.json());
        eprintln!("  [C12] sub-lattices: {}", worst_slices.json());
        eprintln!("  [C12] azimuth windows: {}", worst_windows.json());
    }
    rep.finish()
}
