//! C12 — simulated annihilations are reconstructed at their true vertex
//! (decided on a deterministic lattice of the forward-model parameter box).
use crate::core::*;
use crate::props::c02::panic_site;
use crate::refmodel::sim::*;
use crate::Args;
use alpha_g_physics::MainEvent;
use serde_json::json;
use std::sync::Mutex;
use uom::si::length::meter;

pub fn reconstruct(banks: &[(String, Vec<u8>)]) -> Result<Result<Option<[f64; 3]>, String>, String> {
    guard(|| {
        let ev = MainEvent::try_from_banks(SIM_RUN, banks.iter().map(|(n, d)| (n.as_str(), &d[..]))).map_err(|e| format!("{e}: {e:?}"))?;
        Ok(ev.vertex().map(|v| [v.x.get::<meter>(), v.y.get::<meter>(), v.z.get::<meter>()]))
    })
}

fn median(v: &mut [f64]) -> f64 {
    v.sort_by(|a, b| a.partial_cmp(b).unwrap());
    let n = v.len();
    if n == 0 {
        return f64::NAN;
    }
    if n % 2 == 1 { v[n / 2] } else { 0.5 * (v[n / 2 - 1] + v[n / 2]) }
}
fn percentile(v: &mut [f64], p: f64) -> f64 {
    v.sort_by(|a, b| a.partial_cmp(b).unwrap());
    if v.is_empty() {
        return f64::NAN;
    }
    let k = ((v.len() as f64 - 1.0) * p).ceil() as usize;
    v[k.min(v.len() - 1)]
}

#[derive(Clone, Copy, Default)]
struct Res {
    done: bool,
    found: bool,
    dz: f64,
    dt: f64,
}

fn judge(rep: &Report, label: &str, rs: &[Res]) -> serde_json::Value {
    let n = rs.len();
    let found: Vec<&Res> = rs.iter().filter(|r| r.found).collect();
    let eff = found.len() as f64 / n as f64;
    let mut adz: Vec<f64> = found.iter().map(|r| r.dz.abs()).collect();
    let mut sdz: Vec<f64> = found.iter().map(|r| r.dz).collect();
    let mut dt: Vec<f64> = found.iter().map(|r| r.dt).collect();
    let m_adz = median(&mut adz);
    let p90 = percentile(&mut adz, 0.9);
    let m_dt = median(&mut dt);
    let m_sdz = median(&mut sdz);
    let stats = json!({"batch": label, "events": n, "efficiency": eff, "median_abs_dz_m": m_adz, "p90_abs_dz_m": p90, "median_transverse_error_m": m_dt, "median_signed_dz_m": m_sdz});
    let checks = [
        ("c12:efficiency-below-95pct", eff >= 0.95),
        ("c12:median-abs-dz-above-1.5cm", m_adz <= 0.015),
        ("c12:p90-abs-dz-above-5cm", p90 <= 0.05),
        ("c12:median-transverse-error-above-4cm", m_dt <= 0.04),
        ("c12:median-signed-dz-beyond-3mm", m_sdz.abs() <= 0.003),
    ];
    for (key, ok) in checks {
        if !ok {
            rep.violation_global(key, stats.clone());
        }
    }
    stats
}

pub fn run(args: &Args) -> i32 {
    let rep = super::report(args, "exploration");
    rep.set_rule("every case = one event of the deterministic forward-model lattice (no RNG), packed into ADC/PWB/TRG banks under the simulation run number and reconstructed with MainEvent::try_from_banks + vertex(); non-trivial = the forward model produced at least 13 ionisation clusters; distinct by hash of the lattice index; the statement's thresholds are evaluated on the whole lattice and (thorough) on each of the 8 azimuth-phase sub-lattices of 540 events");
    rep.assume("'any seed' of a random distribution is a statistical claim outside exhaustive enumeration: decided for the fixed lattices only (VERIF_SEED shifts the azimuth offset and the cycling of amplitude / width / transverse vertex position)");
    rep.assume("forward model R7: helices from the vertex, 3 mm ionisation steps, shipped drift table inverted by linear interpolation, shipped responses with the documented neighbour induction factors, Gaussian pad charge sharing, digitised on baselines 3000/1725 after 100 delay samples");
    let thorough = args.tier == Tier::Thorough;
    let total: u64 = LATTICE_RADICES.iter().product();
    let idxs: Vec<u64> = if thorough { (0..total).collect() } else { (0..total).filter(|i| i % 18 == (args.seed % 18)).collect() };
    let phases: Vec<u64> = if thorough { vec![args.seed, args.seed + 1, args.seed + 2] } else { vec![args.seed] };
    let mut all_batches = Vec::new();
    for (pi, &seed) in phases.iter().enumerate() {
        let results = Mutex::new(vec![Res::default(); idxs.len()]);
        rep.run(&format!("lattice-events-phase-{pi}"), idxs.len() as u64, 300, thorough, "V_z (9) x tracks {2,3,4} x azimuth phase (8) x curvature radius (4, alternating charge) x slope (5), transverse vertex / amplitude / pad charge width cycled; quick = every 18th lattice point", |k, loc| {
            let li = idxs[k as usize];
            let spec = lattice_event(li, seed);
            let m = maps();
            let hits = ionisation(m, &spec);
            let banks = banks(m, &signals(m, spec.sigma_z, &hits), 1000 + li as u32);
            let h = hash64(&(li, seed));
            match reconstruct(&banks) {
                Err(p) => {
                    loc.note(h, hits.len() >= 13, "panic");
                    loc.violation(format!("panic:event:{}", panic_site(&p)), json!({"lattice_index": li, "spec": format!("{spec:?}"), "panic": p}));
                }
                Ok(Err(e)) => {
                    loc.note(h, hits.len() >= 13, "build-error");
                    loc.violation("c12:wellformed-event-rejected", json!({"lattice_index": li, "error": e}));
                }
                Ok(Ok(v)) => {
                    loc.note(h, hits.len() >= 13, if v.is_some() { "vertex" } else { "no-vertex" });
                    let mut r = Res { done: true, ..Default::default() };
                    if let Some(v) = v {
                        r.found = true;
                        r.dz = v[2] - spec.vertex[2];
                        r.dt = (v[0] - spec.vertex[0]).hypot(v[1] - spec.vertex[1]);
                    }
                    results.lock().unwrap()[k as usize] = r;
                    if std::env::var("AGV_DEBUG").is_ok() {
                        eprintln!("DBG li={li} d={:?} found={} dz={:.4} dt={:.4} hits={}", unrank(li, &LATTICE_RADICES), r.found, r.dz, r.dt, hits.len());
                    }
                    if loc.want_sample() {
                        loc.sample(json!({"lattice_index": li, "true_vertex": spec.vertex, "tracks": spec.tracks.len(), "ionisation_clusters": hits.len(), "banks": banks.len(), "reconstructed": v}));
                    }
                }
            }
        });
        if rep.one.is_none() {
            let rs: Vec<Res> = results.lock().unwrap().iter().copied().filter(|r| r.done).collect();
            let mut batches = vec![judge(&rep, &format!("whole lattice, lattice phase (seed) {seed}"), &rs)];
            if thorough {
                let all = results.lock().unwrap().clone();
                for phase in 0..8u64 {
                    let sub: Vec<Res> = idxs.iter().zip(all.iter()).filter(|(i, r)| r.done && unrank(**i, &LATTICE_RADICES)[2] == phase).map(|(_, r)| *r).collect();
                    batches.push(judge(&rep, &format!("azimuth phase {phase}, lattice phase (seed) {seed}"), &sub));
                }
            }
            eprintln!("  [C12] {}", batches[0]);
            all_batches.extend(batches);
        }
    }
    if rep.one.is_none() {
        rep.cov("batch_statistics", json!(all_batches));
    }
    rep.finish()
}
