//! C15 — clustering and vertexing conserve inputs and honour size and distance rules.
use crate::core::*;
use crate::props::c02::panic_site;
use crate::props::recon::*;
use crate::Args;
use alpha_g_physics::reconstruction::Track;
use alpha_g_physics::SpacePoint;
use serde_json::json;

fn multiset(v: &[SpacePoint]) -> Vec<[u64; 3]> {
    let mut m: Vec<[u64; 3]> = v.iter().map(bits3).collect();
    m.sort();
    m
}

/// independent single-linkage connectivity (union-find) under the 3 cm rule
fn connected(points: &[SpacePoint]) -> bool {
    // bit-identical copies are at distance 0 of each other: connectivity is decided on the distinct points
    let mut uniq: Vec<&SpacePoint> = Vec::new();
    let mut seen = std::collections::HashSet::new();
    for p in points {
        if seen.insert(bits3(p)) {
            uniq.push(p);
        }
    }
    let n = uniq.len();
    let c: Vec<[f64; 3]> = uniq.iter().map(|p| xyz(p)).collect();
    let mut parent: Vec<usize> = (0..n).collect();
    fn find(p: &mut Vec<usize>, i: usize) -> usize {
        let mut r = i;
        while p[r] != r {
            r = p[r];
        }
        let mut j = i;
        while p[j] != r {
            let nx = p[j];
            p[j] = r;
            j = nx;
        }
        r
    }
    for i in 0..n {
        for j in i + 1..n {
            let d = ((c[i][0] - c[j][0]).powi(2) + (c[i][1] - c[j][1]).powi(2) + (c[i][2] - c[j][2]).powi(2)).sqrt();
            // 1e-12 slack: the library's distance goes through r*cos(phi) in unit types, bit-equal here, but
            // the statement's rule is the 3 cm relation, not its rounding
            if d <= 0.03 + 1e-12 {
                let (a, b) = (find(&mut parent, i), find(&mut parent, j));
                parent[a] = b;
            }
        }
    }
    let r0 = find(&mut parent, 0);
    (0..n).all(|i| find(&mut parent, i) == r0)
}

pub fn check_clustering(pts: Vec<SpacePoint>, what: serde_json::Value, loc: &mut Local) -> Vec<Track> {
    let input = multiset(&pts);
    let h = hash64(&input);
    let mut tracks = Vec::new();
    match cluster(pts) {
        Err(p) => {
            loc.note(h, true, "panic");
            loc.violation(format!("panic:clustering:{}", panic_site(&p)), json!({"case": what, "panic": p}));
        }
        Ok((clusters, remainder)) => {
            loc.note(h, input.len() >= 13, if clusters.is_empty() { "no-clusters" } else { "clusters" });
            let mut all: Vec<SpacePoint> = remainder.clone();
            for (k, c) in clusters.iter().enumerate() {
                let v: Vec<SpacePoint> = c.iter().copied().collect();
                if v.len() < 13 {
                    loc.violation("cluster:fewer-than-13-points", json!({"case": what, "cluster": k, "points": v.len()}));
                }
                if !v.is_empty() && !connected(&v) {
                    loc.violation("cluster:not-connected-under-3cm", json!({"case": what, "cluster": k, "points": v.len()}));
                }
                all.extend(v);
            }
            if multiset(&all) != input {
                loc.violation("cluster:input-not-conserved", json!({"case": what, "input": input.len(), "output": all.len(), "clusters": clusters.len(), "remainder": remainder.len()}));
            }
            for c in clusters {
                if let Ok(Ok(t)) = guard(|| Track::try_from(c)) {
                    tracks.push(t);
                }
            }
            if loc.want_sample() {
                loc.sample(json!({"case": what, "points": input.len(), "remainder": remainder.len(), "tracks_fitted": tracks.len()}));
            }
        }
    }
    tracks
}

pub fn check_vertex_partition(tracks: Vec<Track>, what: serde_json::Value, loc: &mut Local) {
    let input = tracks.clone();
    match vertices(tracks) {
        Err(p) => loc.violation(format!("panic:find-vertices:{}", panic_site(&p)), json!({"case": what, "panic": p})),
        Ok(r) => {
            let mut out: Vec<Track> = r.remainder.clone();
            if let Some(v) = &r.primary {
                if v.tracks.len() < 2 {
                    loc.violation("vertex:primary-with-fewer-than-2-tracks", json!({"case": what, "tracks": v.tracks.len()}));
                }
                out.extend(v.tracks.iter().map(|t| t.0));
            }
            for s in &r.secondaries {
                out.extend(s.tracks.iter().map(|t| t.0));
            }
            // multiset equality under Track's PartialEq
            let mut rest = input.clone();
            let mut ok = out.len() == input.len();
            for t in &out {
                match rest.iter().position(|x| x == t) {
                    Some(i) => {
                        rest.swap_remove(i);
                    }
                    None => ok = false,
                }
            }
            if !ok || !rest.is_empty() {
                loc.violation("vertex:tracks-not-conserved", json!({"case": what, "input": input.len(), "output": out.len(), "primary": r.primary.as_ref().map(|v| v.tracks.len()), "remainder": r.remainder.len()}));
            }
            loc.count("vertexing_calls", 1);
            if r.primary.is_some() {
                loc.count("vertexing_calls_with_primary", 1);
            }
        }
    }
}

pub fn base_sets() -> Vec<(&'static str, Vec<SpacePoint>)> {
    let mut v = Vec::new();
    let t1 = ideal_track([0.001, 0.002, 0.1], 0.4, 0.9, 1.0, 0.3, 30);
    let t2 = ideal_track([0.001, 0.002, 0.1], 2.6, 0.5, -1.0, -0.2, 26);
    let t3 = ideal_track([0.001, 0.002, 0.1], 4.4, 2.0, 1.0, 0.5, 22);
    v.push(("one track", t1.clone()));
    v.push(("two tracks", [t1.clone(), t2.clone()].concat()));
    v.push(("three tracks + 6 noise points", [t1.clone(), t2.clone(), t3.clone(), cloud(6, 5)].concat()));
    // two opposite tracks sharing a Hough line
    let a = ideal_track([0.0, 0.0, 0.0], 0.3, 50.0, 1.0, 0.2, 20);
    let b = ideal_track([0.0, 0.0, 0.0], 0.3 + std::f64::consts::PI, 50.0, -1.0, -0.2, 20);
    v.push(("two back-to-back tracks on one Hough line", [a.clone(), b.clone()].concat()));
    // two tracks at different z sharing an x-y circle
    let c = ideal_track([0.0, 0.0, -0.5], 1.0, 0.8, 1.0, 0.0, 18);
    let d = ideal_track([0.0, 0.0, 0.5], 1.0, 0.8, 1.0, 0.0, 18);
    v.push(("two tracks at z = -0.5 / +0.5 on the same x-y circle", [c, d].concat()));
    // back-to-back short stubs: 8 + 8 points on one line, each stub connected, gap > 3 cm
    let stub = |phi: f64| -> Vec<SpacePoint> { (0..8).map(|i| sp(0.115 + 0.006 * i as f64, phi, 0.02)).collect() };
    v.push(("two 8-point stubs back to back", [stub(0.8), stub(0.8 + std::f64::consts::PI)].concat()));
    // a 14-point track with a 4 cm gap after 7 points
    v.push(("track with a 4 cm gap (7 + 7 points)", (0..14).map(|i| sp(0.11 + 0.004 * i as f64 + if i >= 7 { 0.04 } else { 0.0 }, 1.9, 0.0)).collect()));
    // 12 points (one short of a cluster) and exactly 13
    // two 7-point clumps 2.5 cm apart in radius and 2.5 cm apart in z (3.54 cm in space): not connected
    v.push(("two 7-point clumps 3.54 cm apart on the diagonal", (0..14).map(|i| { let k = i % 7; if i < 7 { sp(0.115 + 0.002 * k as f64, 2.2, 0.10 + 0.001 * k as f64) } else { sp(0.152 + 0.002 * k as f64, 2.2, 0.136 + 0.001 * k as f64) } }).collect()));
    // sparse ladder: steps of 2.4 cm in the plane and 2.4 cm in z (3.39 cm in space) between 13 points on a spiral
    v.push(("sparse diagonal ladder of 14 points", (0..14).map(|i| sp(0.11 + 0.005 * i as f64, 0.4 + 0.16 * i as f64, -0.2 + 0.024 * i as f64)).collect()));
    // three disconnected groups on one Hough line: radial segments at the same azimuth at three heights (10, 12, 10 points)
    v.push(("three radial segments of 10/12/10 points at one azimuth, 20 cm apart in z", (0..32).map(|i| { let (g, k) = if i < 10 { (0, i) } else if i < 22 { (1, i - 10) } else { (2, i - 22) }; sp(0.112 + 0.005 * k as f64, 1.1, -0.2 + 0.2 * g as f64) }).collect()));
    v.push(("12 collinear points", (0..12).map(|i| sp(0.11 + 0.005 * i as f64, 0.3, 0.1)).collect()));
    v.push(("13 collinear points", (0..13).map(|i| sp(0.11 + 0.005 * i as f64, 0.3, 0.1)).collect()));
    v.push(("dense cloud of 150 points", cloud(150, 3).into_iter().map(|p| sp(0.11 + 0.07 * ((bits3(&p)[0] % 1000) as f64 / 1000.0), p.phi.value, 0.1 * p.z.value)).collect()));
    v
}

pub fn run(args: &Args) -> i32 {
    let rep = super::report(args, "exploration");
    rep.set_rule("every case = one point multiset handed to the public cluster_spacepoints; oracle: clusters + remainder equal the input as a multiset of (r, phi, z) bit patterns, every cluster has >= 13 points and is connected under an independent union-find with the 3 cm rule; the fitted tracks (and template track multisets) go to find_vertices: primary + secondaries + remainder equal the input tracks as a multiset, a primary vertex has >= 2 tracks; non-trivial = at least 13 points / at least 2 tracks; distinct by hash of the point bit patterns");
    rep.assume("base multisets with at most 2 removals and 2 exact duplications; nothing is claimed for other point sets");
    let thorough = args.tier == Tier::Thorough;
    let bases = base_sets();

    // d <= 1 + 1: remove any one point x duplicate any one point (incl. none)
    let mut plan: Vec<(usize, usize, usize)> = Vec::new();
    for (bi, (_, pts)) in bases.iter().enumerate() {
        let n = pts.len();
        let stride = if thorough || n <= 40 { 1 } else { 3 };
        for rem in (0..=n).step_by(stride) {
            for dup in (0..=n).step_by(stride) {
                plan.push((bi, rem, dup));
            }
        }
    }
    rep.run("remove-one-duplicate-one", plan.len() as u64, 300, true, "13 base multisets (1-3 ideal tracks, noise, back-to-back tracks on one Hough line, same circle at two z, two 8-point stubs, a track with a gap, 12 and 13 collinear points, dense cloud) x {remove point i or none} x {duplicate point j (exact bit copy) or none}", |k, loc| {
        let (bi, rem, dup) = plan[k as usize];
        let mut pts = bases[bi].1.clone();
        let n = pts.len();
        let dup_pt = if dup < n { Some(pts[dup]) } else { None };
        if rem < n {
            pts.remove(rem);
        }
        if let Some(p) = dup_pt {
            pts.push(p);
        }
        let what = json!({"base": bases[bi].0, "removed": if rem < n { Some(rem) } else { None }, "duplicated": if dup < n { Some(dup) } else { None }});
        let tracks = check_clustering(pts, what.clone(), loc);
        check_vertex_partition(tracks, what, loc);
    });
    if thorough {
        // two removals + two duplications on the small bases
        let small: Vec<usize> = bases.iter().enumerate().filter(|(_, b)| b.1.len() <= 30).map(|(i, _)| i).collect();
        let mut plan2 = Vec::new();
        for &bi in &small {
            let n = bases[bi].1.len();
            for a in 0..n {
                for b in a + 1..n {
                    for c in (0..n).step_by(3) {
                        plan2.push((bi, a, b, c, (c * 7 + 1) % n));
                    }
                }
            }
        }
        rep.run("remove-two-duplicate-two", plan2.len() as u64, 300, true, "small base multisets: every pair of removals x duplicated pairs on a stride", |k, loc| {
            let (bi, a, b, c, d) = plan2[k as usize];
            let base = &bases[bi].1;
            let mut pts: Vec<SpacePoint> = base.iter().enumerate().filter(|(i, _)| *i != a && *i != b).map(|(_, p)| *p).collect();
            pts.push(base[c]);
            pts.push(base[d]);
            let what = json!({"base": bases[bi].0, "removed": [a, b], "duplicated": [c, d]});
            let tracks = check_clustering(pts, what.clone(), loc);
            check_vertex_partition(tracks, what, loc);
        });
    }
    // duplicates of the same point many times, clouds
    rep.run("heavy-duplicates-and-clouds", 40, 600, true, "one point repeated 1..=30 times inside a track; clouds of 0, 1, 12, 13, 100, 500, 2000 points", |k, loc| {
        let pts = if k < 30 {
            let mut p = bases[0].1.clone();
            let x = p[(k as usize * 7) % p.len()];
            p.extend(std::iter::repeat(x).take(k as usize + 1));
            p
        } else {
            cloud([0usize, 1, 12, 13, 100, 500, 2000, 50, 300, 1000][(k - 30) as usize], k)
        };
        let what = json!({"family": "heavy-duplicates-and-clouds", "index": k, "points": pts.len()});
        let tracks = check_clustering(pts, what.clone(), loc);
        check_vertex_partition(tracks, what, loc);
    });
    // three or four mutually disconnected groups on one radial line (one Hough bin), in every order of sizes
    {
        let size_sets: Vec<Vec<usize>> = vec![vec![14, 8, 20], vec![8, 14, 20], vec![20, 8, 14], vec![14, 20, 8], vec![8, 20, 14], vec![20, 14, 8], vec![13, 5, 13], vec![5, 13, 5, 13], vec![14, 3, 3, 15], vec![12, 12, 12], vec![13, 13, 13, 13]];
        rep.run("groups-on-one-line", size_sets.len() as u64 * 2, 300, true, "3 or 4 radial segments (2 mm spacing) of 11 size patterns on the same (phi) line, 40 cm / 10 cm apart in z: every cluster must be one connected group", |idx, loc| {
            let sizes = &size_sets[(idx / 2) as usize];
            let dz = if idx % 2 == 0 { 0.4 } else { 0.1 };
            let mut pts = Vec::new();
            for (g, &n) in sizes.iter().enumerate() {
                let z = -0.5 + dz * g as f64;
                pts.extend((0..n).map(|i| sp(0.11 + 0.002 * i as f64, 2.2, z)));
            }
            check_clustering(pts, json!({"family": "groups-on-one-line", "sizes": sizes, "dz": dz}), loc);
        });
    }
    // two spots of 8 identical hits each, separated by 2.5 .. 6 cm along the azimuth / radius / z (a cluster may hold
    // both only if they are within 3 cm of each other)
    let seps = [0.025, 0.029, 0.0299, 0.0301, 0.031, 0.033, 0.036, 0.04, 0.042, 0.0425, 0.045, 0.05, 0.06];
    rep.run("two-spots", seps.len() as u64 * 3 * 3 * 2, 300, true, "two spots of 8 (and 7 + 9) identical hits at r in {0.11, 0.15, 0.18} separated by {2.5 .. 6 cm} (13 values) along {azimuth (chord), radius, z}", |idx, loc| {
        let d = unrank(idx, &[seps.len() as u64, 3, 3, 2]);
        let sep = seps[d[0] as usize];
        let r = [0.11, 0.15, 0.18][d[1] as usize];
        let (na, nb) = if d[3] == 0 { (8, 8) } else { (7, 9) };
        let a = sp(r, 1.1, 0.2);
        let b = match d[2] {
            0 => sp(r, 1.1 + 2.0 * (sep / (2.0 * r)).asin(), 0.2),
            1 => sp(if r + sep <= 0.19 { r + sep } else { r - sep }, 1.1, 0.2),
            _ => sp(r, 1.1, 0.2 + sep),
        };
        let mut pts = vec![a; na];
        pts.extend(vec![b; nb]);
        let dir = ["azimuth", "radius", "z"][d[2] as usize];
        check_clustering(pts, json!({"family": "two-spots", "separation_m": sep, "direction": dir, "r": r, "hits": [na, nb]}), loc);
    });
    // one point repeated up to and beyond the limits of narrow counters (u8, u16) inside a track and alone
    let reps: Vec<usize> = if thorough { vec![31, 100, 254, 255, 256, 257, 300, 1000, 65535, 65536, 65537] } else { vec![31, 100, 254, 255, 256, 257, 300, 1000] };
    rep.run("massive-duplicates", reps.len() as u64 * 2, 600, true, "one space point repeated {31, 100, 254..257, 300, 1000; thorough: 65535..65537} times x {inside a 20-point track, on its own}", |k, loc| {
        let n = reps[(k / 2) as usize];
        let mut p = if k % 2 == 0 { bases[0].1.clone() } else { Vec::new() };
        let x = bases[0].1[5];
        p.extend(std::iter::repeat(x).take(n));
        let what = json!({"family": "massive-duplicates", "copies": n, "inside_a_track": k % 2 == 0});
        check_clustering(p, what, loc);
    });
    // find_vertices on every ORDERED list of up to 4 template tracks (a repeated track with other tracks in between)
    rep.run("track-sequences", 1 + 7 + 49 + 343 + 2401, 300, true, "every ordered list of 0..=4 tracks out of 7 template tracks (incl. lists like [a, b, a]) into find_vertices", |idx, loc| {
        let t = template_tracks();
        let mut x = idx;
        let mut l = 0usize;
        let mut block = 1u64;
        while x >= block {
            x -= block;
            block *= 7;
            l += 1;
        }
        let mut ids = Vec::new();
        for _ in 0..l {
            ids.push((x % 7) as usize);
            x /= 7;
        }
        let set: Vec<Track> = ids.iter().map(|&i| t[i]).collect();
        loc.note(hash64(&(ids.clone(), 9u8)), set.len() >= 2, "vertexed");
        check_vertex_partition(set, json!({"template_sequence": ids}), loc);
    });

    // the 3 cm relation at its threshold: two 14-point segments (2 mm spacing, each connected on its own) whose
    // closest points are 3 cm x (1 +- 10^-k) apart, along z, along r and along the azimuth
    rep.run("linkage-threshold", 3 * 29 * 4, 300, true, "two 14-point radial segments separated by a gap of 3 cm x (1 + s x 10^-k), s in {-1, +1}, k = 3..=16, and exactly 3 cm, along {z, r, azimuth} x 4 placements: a cluster may hold both segments only if the gap is within the 3 cm relation", |idx, loc| {
        let d = unrank(idx, &[29, 3, 4]);
        let gap = match d[0] {
            0 => 0.03,
            j => 0.03 * (1.0 + if j % 2 == 1 { 1.0 } else { -1.0 } * 10f64.powi(-(3 + (j as i32 - 1) / 2))),
        };
        let (z0, phi0) = [(0.0, 0.3), (-0.71, 2.9), (0.333, 4.4), (1.0, 6.1)][d[2] as usize];
        let mut pts: Vec<SpacePoint> = (0..14).map(|i| sp(0.11 + 0.002 * i as f64, phi0, z0)).collect();
        match d[1] {
            0 => pts.extend((0..14).map(|i| sp(0.11 + 0.002 * i as f64, phi0, z0 + gap))),
            1 => pts.extend((0..14).map(|i| sp(0.11 + 0.002 * 13.0 + gap + 0.002 * i as f64, phi0, z0))),
            _ => {
                // chord of length `gap` at every radius would need a radius-dependent angle: place the second segment
                // parallel to the first, shifted perpendicular to it by `gap`
                let (c, s) = (phi0.cos(), phi0.sin());
                pts.extend((0..14).map(|i| {
                    let r = 0.11 + 0.002 * i as f64;
                    sp_xy(r * c - gap * s, r * s + gap * c, z0)
                }));
            }
        }
        let dir_name = ["z", "r", "perpendicular"][d[1] as usize];
        let what = json!({"family": "linkage-threshold", "gap_m": gap, "direction": dir_name, "placement": d[2]});
        check_clustering(pts, what, loc);
    });

    // vertexing: template multisets and tracks far apart in z
    let ms = multisets(7, if thorough { 8 } else { 5 });
    rep.run("track-multisets", ms.len() as u64, 300, true, "every multiset of size 0..=8 (quick: 5) of 7 template tracks into find_vertices", |idx, loc| {
        let t = template_tracks();
        let set: Vec<Track> = ms[idx as usize].iter().map(|&i| t[i]).collect();
        loc.note(hash64(&(ms[idx as usize].clone(), 1u8)), set.len() >= 2, "vertexed");
        check_vertex_partition(set, json!({"templates": ms[idx as usize]}), loc);
    });
    rep.run("fitted-track-pairs", 9 * 9, 600, true, "two or three tracks fitted from ideal point sets whose vertices are dz apart in z, dz over a 9-value lattice from 0 to 1 m, x second lattice: none may join a primary vertex alone", |idx, loc| {
        let dzs = [0.0, 0.01, 0.03, 0.034, 0.035, 0.05, 0.2, 0.5, 1.0];
        let (dz1, dz2) = (dzs[(idx % 9) as usize], dzs[(idx / 9) as usize]);
        let mut tracks = Vec::new();
        for (j, z) in [-0.3, -0.3 + dz1, -0.3 + dz1 + dz2].iter().enumerate() {
            let pts = ideal_track([0.001, -0.001, *z], 0.5 + 2.2 * j as f64, 0.8, if j % 2 == 0 { 1.0 } else { -1.0 }, 0.0, 20);
            if let Ok(Ok(t)) = fit(pts) {
                tracks.push(t);
            }
        }
        loc.note(hash64(&(idx, 2u8)), tracks.len() >= 2, "vertexed");
        check_vertex_partition(tracks, json!({"dz": [dz1, dz2]}), loc);
    });
    rep.finish()
}
