//! C07 — Chronobox FIFO parsing is faithful, resumable and split-invariant.
//! Explicit-state search (stateright) over all ways of feeding a stream in
//! pieces to the real parser, plus dense classification sweeps.
use crate::core::*;
use crate::props::c02::panic_site;
use crate::refmodel::*;
use crate::Args;
use alpha_g_detector::chronobox::{chronobox_fifo, EdgeType, FifoEntry};
use serde_json::json;
use stateright::{Checker, Model, Property};
use std::sync::atomic::{AtomicU64, Ordering};
use std::sync::Arc;

pub fn conv(e: &FifoEntry) -> RefFifo {
    match e {
        FifoEntry::TimestampCounter(t) => RefFifo::Ts { channel: u8::from(t.channel), trailing: matches!(t.edge, EdgeType::Trailing), timestamp: t.timestamp() },
        FifoEntry::WrapAroundMarker(m) => RefFifo::Marker { top_bit: m.timestamp_top_bit, counter: m.wrap_around_counter() },
    }
}

/// One real parser call. Returns (entries, consumed) and checks that the
/// remainder is exactly the untouched suffix of the input.
pub fn real_parse(b: &[u8]) -> Result<(Vec<RefFifo>, usize), String> {
    let r = guard(|| {
        let mut input = b;
        let entries = chronobox_fifo(&mut input);
        let consumed = b.len() - input.len();
        let suffix_ok = input.len() <= b.len() && std::ptr::eq(input.as_ptr(), b[consumed..].as_ptr());
        (entries.iter().map(conv).collect::<Vec<_>>(), consumed, suffix_ok)
    })?;
    if !r.2 {
        return Err("remainder is not the suffix of the input".into());
    }
    Ok((r.0, r.1))
}

pub fn element(kind: u64, pos: usize) -> Vec<u8> {
    match kind {
        0 => vec![0x10, 0x32, 0x54, 0x80],                                  // ts channel 0, leading
        1 => vec![0x11, 0x00, 0x80, 0x80 | 58],                             // ts channel 58, trailing, top bit set
        2 => vec![0x00, 0x00, 0x00, 0x80 | 59],                             // channel 59: not an entry
        3 => vec![pos as u8, 0x00, if pos % 2 == 1 { 0x80 } else { 0 }, 0xFF], // marker, alternating top bit
        4 => {
            // complete scaler block whose payload looks like markers / timestamps / block headers
            let mut v = vec![0x3C, 0x00, 0x00, 0xFE];
            for i in 0..59u8 {
                v.extend(match i % 4 {
                    0 => [i, 0, 0, 0xFF],
                    1 => [i, 1, 2, 0x80],
                    2 => [0x3C, 0x00, 0x00, 0xFE],
                    _ => [i, i, i, 0x7F],
                });
            }
            v.extend([0xAA, 0xBB, 0xCC, 0xDD]);
            assert_eq!(v.len(), SCALER_BLOCK_BYTES);
            v
        }
        5 => vec![0x01, 0x02, 0x03, 0x7F],      // invalid word
        6 => vec![0x3C, 0x00, 0x00, 0xFE, 0x01, 0x02], // truncated scaler block (6 bytes)
        _ => vec![0x3C, 0x00, 0x01, 0xFE],      // almost a scaler header
    }
}

#[derive(Clone, Debug, Hash, PartialEq, Eq)]
struct St {
    fed: usize,
    rem: usize,
    entries: Vec<RefFifo>,
    broken: Option<String>,
}

struct FifoModel {
    stream: Arc<Vec<u8>>,
    expected: (Vec<RefFifo>, usize),
    transitions: Arc<AtomicU64>,
    /// allowed piece lengths (None = every length)
    max_piece: usize,
}

impl Model for FifoModel {
    type State = St;
    type Action = usize;
    fn init_states(&self) -> Vec<St> {
        vec![St { fed: 0, rem: 0, entries: vec![], broken: None }]
    }
    fn actions(&self, s: &St, actions: &mut Vec<usize>) {
        if s.broken.is_some() {
            return;
        }
        let left = self.stream.len() - s.fed;
        for k in 1..=left.min(self.max_piece) {
            actions.push(k);
        }
        // always allow "everything that is left" so that terminal states are reachable
        if left > self.max_piece {
            actions.push(left);
        }
    }
    fn next_state(&self, s: &St, k: usize) -> Option<St> {
        self.transitions.fetch_add(1, Ordering::Relaxed);
        let fed = s.fed + k;
        match real_parse(&self.stream[s.rem..fed]) {
            Ok((mut e, consumed)) => {
                let mut entries = s.entries.clone();
                entries.append(&mut e);
                Some(St { fed, rem: s.rem + consumed, entries, broken: None })
            }
            Err(p) => Some(St { fed, rem: s.rem, entries: s.entries.clone(), broken: Some(p) }),
        }
    }
    fn properties(&self) -> Vec<Property<Self>> {
        vec![
            Property::always("no panic, remainder untouched", |_, s: &St| s.broken.is_none()),
            Property::always("entries so far are a prefix of the reference parse and nothing beyond it is consumed", |m: &FifoModel, s: &St| {
                s.entries.len() <= m.expected.0.len() && s.entries[..] == m.expected.0[..s.entries.len()] && s.rem <= m.expected.1 && s.rem <= s.fed
            }),
            Property::always("a completely fed stream gives the whole-stream result", |m: &FifoModel, s: &St| s.fed < m.stream.len() || (s.entries == m.expected.0 && s.rem == m.expected.1)),
        ]
    }
}

fn check_stream(stream: &[u8], max_piece: usize, desc: serde_json::Value, loc: &mut Local) {
    let h = hash64(stream);
    let expected = ref_fifo_parse(stream);
    // whole-stream real parse against the reference (faithfulness)
    match real_parse(stream) {
        Err(p) => {
            loc.note(h, true, "panic");
            loc.violation(format!("panic:fifo:{}", panic_site(&p)), json!({"stream": hex(stream), "desc": desc, "panic": p}));
            return;
        }
        Ok(r) => {
            if r != expected {
                loc.note(h, true, "mismatch");
                loc.violation("fifo:whole-parse-differs-from-reference", json!({"stream": hex(stream), "desc": desc, "real": {"entries": r.0.len(), "consumed": r.1}, "reference": {"entries": expected.0.len(), "consumed": expected.1}}));
                return;
            }
        }
    }
    let transitions = Arc::new(AtomicU64::new(0));
    let model = FifoModel { stream: Arc::new(stream.to_vec()), expected, transitions: transitions.clone(), max_piece };
    let checker = model.checker().spawn_bfs().join();
    let states = checker.unique_state_count() as u64;
    let t = transitions.load(Ordering::Relaxed);
    loc.count("states", states);
    loc.count("transitions", t);
    loc.count("streams", 1);
    let disc = checker.discoveries();
    loc.note(h, stream.len() >= 8, if disc.is_empty() { "split-invariant" } else { "violation" });
    for (name, path) in disc {
        let cuts: Vec<usize> = path.into_actions();
        let key = if name.starts_with("no panic") { "fifo:panic-or-remainder-on-split" } else if name.starts_with("entries") { "fifo:split-prefix-violation" } else { "fifo:split-result-differs" };
        loc.violation(key, json!({"stream": hex(stream), "desc": desc, "piece_lengths": cuts, "property": name}));
    }
    if loc.want_sample() {
        loc.sample(json!({"desc": desc, "stream_len": stream.len(), "states": states, "transitions": t}));
    }
}

pub fn run(args: &Args) -> i32 {
    let rep = super::report(args, "model_checking");
    rep.set_rule("model: state = (bytes fed, start of unconsumed remainder, entries emitted so far); action Feed(k) calls the real chronobox_fifo on stream[rem..fed+k]; every subset of cut positions is a path, so a completed search decides all 2^(N-1) cut patterns of that stream; every transition is a real parser call (traces_validated_against_impl = transitions); non-trivial stream = at least 8 bytes");
    rep.assume("the parser is a pure function of its input slice, so (fed, rem, entries) determines all futures: the state key is exact, not an abstraction");
    rep.assume("reference R5: word classifier + longest-prefix loop written from the statement");
    let thorough = args.tier == Tier::Thorough;

    // 1. all element sequences up to the depth bound, every piece length
    let depth = if thorough { 6 } else { 4 };
    let k = 8u64;
    let mut total = 0u64;
    let mut offs = vec![];
    for d in 0..=depth {
        offs.push(total);
        total += k.pow(d);
    }
    rep.run("element-sequences", total, 120, true, &format!("all sequences of 0..={depth} elements over {{ts ch0, ts ch58 trailing, channel 59, marker, complete 244-byte scaler block with marker-looking payload, invalid word, 6-byte truncated scaler block, almost-a-scaler-header word}}; per stream: full state search over every piece length"), |idx, loc| {
        let d = offs.iter().rposition(|&o| o <= idx).unwrap();
        let mut x = idx - offs[d];
        let mut stream = Vec::new();
        let mut kinds = Vec::new();
        for pos in 0..d {
            let e = x % k;
            x /= k;
            kinds.push(e);
            stream.extend(element(e, pos));
        }
        check_stream(&stream, usize::MAX, json!({"elements": kinds}), loc);
    });

    // 2. longer realistic streams (non-initial states: many entries already emitted), pieces up to 260 bytes
    let long_n = if thorough { 64 } else { 16 };
    rep.run("long-streams", long_n, 300, true, "streams of 40 elements chosen by a fixed mixed-radix pattern (no RNG) incl. several scaler blocks; pieces of every length 1..=260 plus 'all the rest'", |idx, loc| {
        let mut stream = Vec::new();
        let mut kinds = Vec::new();
        for pos in 0..40u64 {
            // valid elements only except one optional invalid tail
            let e = [0u64, 1, 3, 0, 4, 1, 3, 0][((pos * (idx + 3) + idx / 3) % 8) as usize];
            kinds.push(e);
            stream.extend(element(e, pos as usize));
        }
        if idx % 4 == 1 {
            stream.extend(element(6, 0));
        }
        if idx % 4 == 2 {
            stream.extend(element(5, 0));
        }
        if idx % 4 == 3 {
            stream.extend([0x3C, 0x00]);
        }
        check_stream(&stream, 260, json!({"pattern": idx, "elements": kinds.len()}), loc);
    });

    // 3. word classification
    let (n_words, note): (u64, &str) = if thorough { (1 << 32, "all 2^32 4-byte words, each parsed alone by the real parser and classified by R5") } else { (1 << 25, "all 256 top bytes x all 256 low bytes x all 256 values of byte 2 x byte 1 in {0x00,0xFF}") };
    rep.run("word-classification", n_words >> 8, 60, true, note, |idx, loc| {
        // one case = 256 words (all values of the top byte)
        let (b0, b1, b2) = if thorough { ((idx & 0xFF) as u8, (idx >> 8 & 0xFF) as u8, (idx >> 16 & 0xFF) as u8) } else { ((idx & 0xFF) as u8, if idx >> 16 & 1 == 1 { 0xFF } else { 0 }, (idx >> 8 & 0xFF) as u8) };
        let mut nontrivial = 0;
        for top in 0..=255u8 {
            let w = [b0, b1, b2, top];
            let expect = match ref_classify(w) {
                WordClass::Ts(e) | WordClass::Marker(e) => {
                    nontrivial += 1;
                    (vec![e], 4)
                }
                _ => (vec![], 0),
            };
            match real_parse(&w) {
                Ok(r) if r == expect => {}
                Ok(r) => loc.violation("fifo:word-misclassified", json!({"word": hex(&w), "real": format!("{r:?}"), "reference": format!("{expect:?}")})),
                Err(p) => loc.violation(format!("panic:fifo:{}", panic_site(&p)), json!({"word": hex(&w), "panic": p})),
            }
        }
        loc.bulk(256, nontrivial, "classified");
        if loc.want_sample() {
            loc.sample(json!({"low_bytes": hex(&[b0, b1, b2]), "top_bytes": "00..ff"}));
        }
    });

    // 3b. every near-miss of the scaler block header, followed by enough bytes for a whole block
    rep.run("scaler-header-variants", 65536 * 2, 60, true, "ts + word [0x3C, b1, b2, 0xFE] for all 65536 (b1, b2) and [b0, 0, 0, top] for all 65536 (b0, top) + 61 valid words + ts: whole parse against the reference (only the exact header may swallow a block)", |idx, loc| {
        let (a, b) = ((idx & 0xFF) as u8, (idx >> 8 & 0xFF) as u8);
        let word = if idx < 65536 { [0x3C, a, b, 0xFE] } else { [a, 0x00, 0x00, b] };
        let mut stream = element(0, 0);
        stream.extend(word);
        for i in 0..61 {
            stream.extend(element([0u64, 1, 3][i % 3], i));
        }
        let expected = ref_fifo_parse(&stream);
        match real_parse(&stream) {
            Err(p) => loc.violation(format!("panic:fifo:{}", panic_site(&p)), json!({"word": hex(&word), "panic": p})),
            Ok(r) => {
                loc.note(hash64(&stream), true, if r.1 == stream.len() { "all-consumed" } else { "stopped" });
                if r != expected {
                    loc.violation("fifo:whole-parse-differs-from-reference", json!({"word": hex(&word), "stream_len": stream.len(), "real": {"entries": r.0.len(), "consumed": r.1}, "reference": {"entries": expected.0.len(), "consumed": expected.1}}));
                }
            }
        }
    });

    // 4. scaler block boundaries: block header followed by every truncation, then resumed
    rep.run("scaler-truncations", 245 * 3, 60, true, "ts + scaler block cut at every length 0..=244 + {nothing, ts, marker}: whole parse vs reference and full split search", |idx, loc| {
        let cut = (idx / 3) as usize;
        let mut stream = element(0, 0);
        stream.extend(&element(4, 0)[..cut]);
        match idx % 3 {
            0 => {}
            1 => stream.extend(element(1, 0)),
            _ => stream.extend(element(3, 1)),
        }
        check_stream(&stream, usize::MAX, json!({"scaler_cut": cut, "tail": idx % 3}), loc);
    });

    // 5. the same split invariance at the level of the program that consumes the parser: the stream of
    //    C20's hardware model cut into banks / events / files must give the same rows as the uncut stream
    {
        use crate::props::c20::{conform, model_stream, Layout};
        use crate::refmodel::midas::BankFmt;
        let words = model_stream(&[1, 7, 6, 3, 1], 2);
        let nbytes = crate::props::c20::encode_words(&words).len() as u64;
        let words_b = model_stream(&[2, 6, 1, 7, 1], 1);
        let nb2 = crate::props::c20::encode_words(&words_b).len();
        rep.run("program-level-cuts", (nbytes + 1) * 4, 120, true, "alpha-g-chronobox-timestamps on a 5-region stream (edges, scaler blocks) cut at every byte position into two banks x {1 bank per event in 3 files, 2 banks per event in 1 file, 3 pieces (second cut 7 bytes later) in 2 files, two boards whose pieces share events (second board cut elsewhere)}: rows and times against the reference", |idx, loc| {
            let cut = (idx / 4) as usize;
            if idx % 4 == 3 {
                let lay = Layout { cuts: vec![vec![cut], vec![(cut * 7 + 3) % (nb2 + 1)]], banks_per_event: 2, files: 2, fmt: BankFmt::B32, lz4: false, decoys: false };
                conform(&[words.clone(), words_b.clone()], &lay, json!({"cut_at": cut, "layout": "two boards sharing events"}), &format!("c07q{idx}"), loc);
                return;
            }
            let idx = idx / 4 * 3 + idx % 4;
            let lay = match idx % 3 {
                0 => Layout { cuts: vec![vec![cut]], banks_per_event: 1, files: 3, fmt: BankFmt::B32, lz4: false, decoys: false },
                1 => Layout { cuts: vec![vec![cut]], banks_per_event: 2, files: 1, fmt: BankFmt::B16, lz4: false, decoys: true },
                _ => Layout { cuts: vec![vec![cut, cut + 7]], banks_per_event: 1, files: 2, fmt: BankFmt::B32A, lz4: true, decoys: false },
            };
            conform(&[words.clone()], &lay, json!({"cut_at": cut, "layout": idx % 3}), &format!("c07p{idx}"), loc);
        });
    }

    let states = rep.get_extra("states");
    let transitions = rep.get_extra("transitions");
    rep.cov("states", json!(states));
    rep.cov("transitions", json!(transitions));
    rep.cov("traces_validated_against_impl", json!(transitions));
    rep.cov("streams_searched", json!(rep.get_extra("streams")));
    rep.finish()
}
