//! C20 — Chronobox timestamps CSV never reports a wrong time.
//! Model of the hardware FIFO + conformance of the real binary on every model trace (engine E3).
use crate::core::*;
use crate::refmodel::midas::*;
use crate::refmodel::*;
use crate::Args;
use serde_json::json;
use std::sync::atomic::{AtomicU64, Ordering};

const H: u64 = 1 << 23; // half wrap, in 10 MHz ticks

#[derive(Clone, Debug, PartialEq)]
pub enum Word {
    /// an edge: channel, trailing?, true tick (even), region of the true tick (region j = [jH, (j+1)H))
    Ts { ch: u8, trailing: bool, tick: u64, region: u64 },
    Marker { counter: u32, top: bool },
    Scaler,
    Raw(Vec<u8>),
}

pub fn encode_words(ws: &[Word]) -> Vec<u8> {
    let mut v = Vec::new();
    for w in ws {
        match w {
            Word::Ts { ch, trailing, tick, .. } => {
                let low = ((tick & 0xFF_FFFE) as u32) | *trailing as u32;
                v.extend((low | ((0x80 | *ch as u32) << 24)).to_le_bytes());
            }
            Word::Marker { counter, top } => v.extend(((0xFFu32 << 24) | ((*top as u32) << 23) | (counter & 0x7F_FFFF)).to_le_bytes()),
            Word::Scaler => {
                v.extend([0x3C, 0x00, 0x00, 0xFE]);
                for i in 0..59u32 {
                    // counts that look like markers / timestamps
                    v.extend(if i % 3 == 0 { 0xFF00_0000u32 | i } else { 0x8000_0000 | (i << 8) }.to_le_bytes());
                }
                v.extend(0x1234_5678u32.to_le_bytes());
            }
            Word::Raw(b) => v.extend(b),
        }
    }
    v
}

/// Per-region menu of the hardware model.
pub const MENU: u64 = 8;
/// Stream of a board: `regions[j]` = menu item of region j (region j lies between marker j-1 and marker j).
pub fn model_stream(regions: &[u64], salt: u64) -> Vec<Word> {
    let nm = regions.len() - 1; // markers 0..nm-1
    let mut per_region: Vec<Vec<Word>> = vec![Vec::new(); regions.len()];
    let ch = |j: usize| ((j as u64 * 7 + salt * 13) % 59) as u8;
    for (j, &item) in regions.iter().enumerate() {
        let base = j as u64 * H;
        let ts = |tick: u64, c: u8, tr: bool| Word::Ts { ch: c, trailing: tr, tick, region: j as u64 };
        match item {
            0 => {}
            1 => per_region[j].push(ts(base + H / 2 + 2 * (salt + j as u64), ch(j), j % 2 == 1)),
            2 => per_region[j].push(ts(base, ch(j), false)),
            3 => per_region[j].push(ts(base + H - 2, ch(j), true)),
            4 => {
                // written after the next marker
                if j + 1 < regions.len() {
                    per_region[j + 1].insert(0, ts(base + H - 4, ch(j), false));
                } else {
                    per_region[j].push(ts(base + H - 4, ch(j), false));
                }
            }
            5 => {
                // written before the previous marker
                if j > 0 {
                    per_region[j - 1].push(ts(base + 2, ch(j), true));
                } else {
                    per_region[j].push(ts(base + 2, ch(j), true));
                }
            }
            6 => {
                per_region[j].push(Word::Scaler);
                per_region[j].push(ts(base + 1000, ch(j), false));
                per_region[j].push(Word::Scaler);
            }
            _ => {
                per_region[j].push(ts(base + 10, 0, false));
                per_region[j].push(ts(base + 12, 58, true));
                per_region[j].push(ts(base + H - 2, 58, false));
            }
        }
    }
    let mut out = Vec::new();
    for (j, ws) in per_region.into_iter().enumerate() {
        out.extend(ws);
        if j < nm {
            out.push(Word::Marker { counter: j as u32, top: j % 2 == 1 });
        }
    }
    out
}

#[derive(Clone, Debug, PartialEq)]
pub struct Row {
    pub board: String,
    pub channel: u8,
    pub leading: bool,
    pub time: Option<f64>,
}

/// Reference: rows the program must write for one board, or None if it must fail.
pub fn expected_rows(board: &str, words: &[Word], bytes: &[u8]) -> Option<Vec<Row>> {
    // the byte stream must be completely consumed by the longest-prefix parser
    if ref_fifo_parse(bytes).1 != bytes.len() {
        return None;
    }
    let first0 = words.iter().position(|w| matches!(w, Word::Marker { counter: 0, .. }))?;
    if let Word::Marker { top: true, .. } = words[first0] {
        return None;
    }
    let mut rows = Vec::new();
    for (i, w) in words.iter().enumerate().skip(first0) {
        if let Word::Ts { ch, trailing, tick, region } = w {
            let prev = words[..i].iter().rev().find_map(|w| if let Word::Marker { counter, top } = w { Some((*counter, *top)) } else { None });
            let next = words[i + 1..].iter().find_map(|w| if let Word::Marker { counter, top } = w { Some((*counter, *top)) } else { None });
            let time = match (prev, next) {
                (Some(p), Some(n)) if p.0 + 1 == n.0 && p.1 != n.1 && *region == p.0 as u64 + 1 => Some((tick & !1) as f64 / 1e7),
                _ => None,
            };
            rows.push(Row { board: board.to_string(), channel: *ch, leading: !*trailing, time });
        }
    }
    Some(rows)
}

/// How a board's byte stream is cut into banks and how banks are grouped into events and files.
#[derive(Clone, Debug)]
pub struct Layout {
    /// cut positions (byte offsets) per board
    pub cuts: Vec<Vec<usize>>,
    /// banks per event (round robin over boards' pieces); >= 1
    pub banks_per_event: usize,
    pub files: usize,
    pub fmt: BankFmt,
    pub lz4: bool,
    pub decoys: bool,
}

const BOARDS: [(&str, &str); 4] = [("CBF1", "cb01"), ("CBF2", "cb02"), ("CBF3", "cb03"), ("CBF4", "cb04")];

pub fn materialise(streams: &[Vec<u8>], lay: &Layout, dir: &Scratch) -> Vec<std::path::PathBuf> {
    // pieces in stream order per board
    let mut pieces: Vec<(usize, Vec<u8>)> = Vec::new(); // (board, bytes), interleaved board by board per piece index
    let per_board: Vec<Vec<Vec<u8>>> = streams.iter().enumerate().map(|(b, s)| {
        let mut cuts = lay.cuts.get(b).cloned().unwrap_or_default();
        cuts.retain(|c| *c <= s.len());
        cuts.sort();
        let mut out = Vec::new();
        let mut last = 0;
        for c in cuts {
            out.push(s[last..c].to_vec());
            last = c;
        }
        out.push(s[last..].to_vec());
        out
    }).collect();
    let maxp = per_board.iter().map(|p| p.len()).max().unwrap_or(0);
    for k in 0..maxp {
        for (b, p) in per_board.iter().enumerate() {
            if k < p.len() {
                pieces.push((b, p[k].clone()));
            }
        }
    }
    let mut events: Vec<MEvent> = Vec::new();
    let mut serial = 0;
    if lay.decoys {
        // a main event carrying a bank with a chronobox name: must be ignored
        events.push(MEvent { id: 1, serial, timestamp: 1, fmt: lay.fmt, banks: vec![("ATAT".into(), vec![0; 80]), ("CBF1".into(), vec![0x11, 0x22, 0x33, 0x44])] });
        serial += 1;
    }
    for chunk in pieces.chunks(lay.banks_per_event.max(1)) {
        let mut banks: Vec<(String, Vec<u8>)> = Vec::new();
        if lay.decoys {
            banks.push(("CBF5".into(), vec![1, 2, 3]));
            banks.push(("XYZ1".into(), vec![0xFF; 8]));
        }
        for (b, bytes) in chunk {
            banks.push((BOARDS[*b].0.to_string(), bytes.clone()));
        }
        events.push(MEvent { id: 4, serial, timestamp: 2, fmt: lay.fmt, banks });
        serial += 1;
        if lay.decoys {
            events.push(MEvent { id: 8, serial, timestamp: 2, fmt: lay.fmt, banks: vec![("SEQ2".into(), b"<xml/>".to_vec())] });
            serial += 1;
        }
    }
    let nf = lay.files.max(1).min(events.len().max(1));
    let per = events.len().div_ceil(nf).max(1);
    let mut paths = Vec::new();
    for (fi, evs) in events.chunks(per).enumerate() {
        let data = encode_file(7777, 1000 + fi as u32, 1001 + fi as u32, evs);
        let p = if lay.lz4 && fi % 2 == 0 { dir.write(&format!("run{fi:02}.mid.lz4"), &lz4_frame(&data)) } else { dir.write(&format!("run{fi:02}.mid"), &data) };
        paths.push(p);
    }
    if paths.is_empty() {
        paths.push(dir.write("run00.mid", &encode_file(7777, 1000, 1001, &[])));
    }
    // hand the files over in reverse order: the program has to sort them
    paths.reverse();
    paths
}

fn parse_rows(csv: &str) -> Result<Vec<Row>, String> {
    let rows = csv_rows(csv);
    if rows.is_empty() || rows[0] != ["board", "channel", "leading_edge", "chronobox_time"] {
        // an empty CSV has no header row with the csv crate (no records serialised)
        if rows.is_empty() {
            return Ok(vec![]);
        }
        return Err(format!("unexpected CSV header {:?}", rows[0]));
    }
    rows[1..].iter().map(|r| {
        if r.len() != 4 {
            return Err(format!("row with {} fields", r.len()));
        }
        Ok(Row { board: r[0].clone(), channel: r[1].parse().map_err(|_| "channel")?, leading: r[2].parse().map_err(|_| "leading_edge")?, time: if r[3].is_empty() { None } else { Some(r[3].parse().map_err(|_| "chronobox_time")?) } })
    }).collect()
}

static RUNS: AtomicU64 = AtomicU64::new(0);

/// Run the real binary on one materialised trace and compare with the reference.
pub fn conform(board_words: &[Vec<Word>], lay: &Layout, what: serde_json::Value, tag: &str, loc: &mut Local) {
    let streams: Vec<Vec<u8>> = board_words.iter().map(|w| encode_words(w)).collect();
    let mut expect: Option<Vec<Row>> = Some(Vec::new());
    for (b, (w, s)) in board_words.iter().zip(&streams).enumerate() {
        match (expected_rows(BOARDS[b].1, w, s), expect.as_mut()) {
            (Some(r), Some(e)) => e.extend(r),
            _ => expect = None,
        }
    }
    let dir = Scratch::new(tag);
    let files = materialise(&streams, lay, &dir);
    let out = run_binary("alpha-g-chronobox-timestamps", &dir.0, &files, None);
    RUNS.fetch_add(1, Ordering::Relaxed);
    let h = hash64(&(streams.clone(), format!("{lay:?}")));
    let rows_nontrivial = expect.as_ref().map(|e| e.len() >= 2).unwrap_or(true);
    let detail = |extra: serde_json::Value| json!({"case": what, "layout": format!("{lay:?}"), "streams": streams.iter().map(|s| hex(s)).collect::<Vec<_>>(), "exit": out.status, "stderr": out.stderr.lines().last().unwrap_or(""), "detail": extra});
    if out.status.is_none() || out.status == Some(101) || out.stderr.contains("panicked at") {
        loc.note(h, true, "crash");
        loc.violation("cbts:panic-or-signal", detail(json!(null)));
        return;
    }
    match (&expect, out.status, &out.csv) {
        (None, Some(0), _) => {
            loc.note(h, true, "accepted-broken-stream");
            loc.violation("cbts:broken-stream-accepted", detail(json!({"csv_written": out.csv.is_some()})));
        }
        (None, _, Some(_)) => {
            loc.note(h, true, "csv-written-on-failure");
            loc.violation("cbts:csv-written-although-failed", detail(json!(null)));
        }
        (None, _, None) => loc.note(h, rows_nontrivial, "refused"),
        (Some(_), st, csv) if st != Some(0) || csv.is_none() => {
            loc.note(h, true, "failed");
            loc.violation("cbts:wellformed-stream-refused", detail(json!(null)));
        }
        (Some(_), _, None) => unreachable!(),
        (Some(e), _, Some(csv)) => match parse_rows(csv) {
            Err(m) => {
                loc.note(h, true, "bad-csv");
                loc.violation("cbts:csv-unreadable", detail(json!(m)));
            }
            Ok(got) => {
                loc.note(h, rows_nontrivial, "rows-compared");
                loc.count("rows_compared", e.len() as u64);
                loc.count("rows_with_time", e.iter().filter(|r| r.time.is_some()).count() as u64);
                if got.len() != e.len() {
                    let key = if got.len() + board_words.len() >= e.len() && got.len() < e.len() { "cbts:row-missing" } else { "cbts:row-count" };
                    loc.violation(key, detail(json!({"expected_rows": e.len(), "got_rows": got.len()})));
                    return;
                }
                for (i, (g, x)) in got.iter().zip(e).enumerate() {
                    let time_ok = match (g.time, x.time) {
                        (None, None) => true,
                        (Some(a), Some(b)) => (a - b).abs() <= 1e-12 * b.abs().max(1e-9),
                        _ => false,
                    };
                    if g.board != x.board || g.channel != x.channel || g.leading != x.leading {
                        loc.violation("cbts:row-identity", detail(json!({"row": i, "got": format!("{g:?}"), "expected": format!("{x:?}")})));
                        return;
                    }
                    if !time_ok {
                        let key = match (g.time, x.time) {
                            (Some(_), Some(_)) => "cbts:wrong-time",
                            (Some(_), None) => "cbts:time-where-it-must-be-empty",
                            _ => "cbts:time-missing",
                        };
                        loc.violation(key, detail(json!({"row": i, "got": format!("{g:?}"), "expected": format!("{x:?}")})));
                        return;
                    }
                }
                if loc.want_sample() {
                    loc.sample(json!({"case": what, "rows": e.len(), "files": files.len(), "first_rows": got.iter().take(3).map(|r| format!("{r:?}")).collect::<Vec<_>>()}));
                }
            }
        },
    }
}

pub fn default_layout() -> Layout {
    Layout { cuts: vec![], banks_per_event: 1, files: 1, fmt: BankFmt::B32, lz4: false, decoys: false }
}

/// all region menus with at most `dev` non-default regions (default = one edge mid-region)
fn menus(n_regions: usize, dev: usize) -> Vec<Vec<u64>> {
    let mut out = vec![vec![1u64; n_regions]];
    let alts: Vec<u64> = (0..MENU).filter(|&m| m != 1).collect();
    if dev >= 1 {
        for i in 0..n_regions {
            for &a in &alts {
                let mut v = vec![1u64; n_regions];
                v[i] = a;
                out.push(v);
            }
        }
    }
    if dev >= 2 {
        for i in 0..n_regions {
            for j in i + 1..n_regions {
                for &a in &alts {
                    for &b in &alts {
                        let mut v = vec![1u64; n_regions];
                        v[i] = a;
                        v[j] = b;
                        out.push(v);
                    }
                }
            }
        }
    }
    if dev >= 3 {
        for i in 0..n_regions {
            for j in i + 1..n_regions {
                for k in j + 1..n_regions {
                    for &a in &[0u64, 4, 5, 6] {
                        for &b in &[2u64, 3, 4, 5] {
                            for &c in &[0u64, 4, 5, 7] {
                                let mut v = vec![1u64; n_regions];
                                v[i] = a;
                                v[j] = b;
                                v[k] = c;
                                out.push(v);
                            }
                        }
                    }
                }
            }
        }
    }
    out
}

pub fn run(args: &Args) -> i32 {
    let rep = super::report(args, "model_checking");
    rep.set_rule("model: a board's FIFO stream is generated region by region (region j = ticks [j*2^23, (j+1)*2^23), closed by marker j with counter j and top bit j odd) from a per-region menu {nothing, edge mid-region, edge at the first tick, edge at the last tick, edge displaced after the next marker, edge displaced before the previous marker, scaler blocks around an edge, three edges}; model state = (regions emitted, words so far); every model trace is written as real MIDAS files (banks / events / files per the layout) and run through the real alpha-g-chronobox-timestamps binary (traces_validated_against_impl = invocations); the oracle is computed from the model's true ticks, not from the program's epoch formula; non-trivial = a trace with at least 2 expected rows or a stream the program must refuse");
    rep.assume("edges are displaced by at most one region (half a wrap), as stated");
    rep.assume("times are compared to 1e-12 relative (the CSV carries shortest-round-trip floats)");
    let thorough = args.tier == Tier::Thorough;
    let max_markers = if thorough { 9 } else { 7 };
    let states = AtomicU64::new(0);

    // 1. all menus with bounded deviations, one board, default layout
    let mut traces: Vec<Vec<u64>> = Vec::new();
    for nm in 0..=max_markers {
        let dev = if thorough { if nm <= 5 { 3 } else { 2 } } else if nm <= 4 { 2 } else { 1 };
        traces.extend(menus(nm + 1, dev));
    }
    // distinct prefixes = states of the generating model
    {
        let mut set = std::collections::HashSet::new();
        for t in &traces {
            for k in 0..=t.len() {
                set.insert((t.len(), t[..k].to_vec()));
            }
        }
        states.fetch_add(set.len() as u64, Ordering::Relaxed);
    }
    rep.run("region-menus", traces.len() as u64, 120, true, &format!("0..={max_markers} markers; every assignment of menu items to regions with at most 2 (small models: 3; quick large models: 1) regions differing from the default 'one edge mid-region'"), |idx, loc| {
        let t = &traces[idx as usize];
        let ws = model_stream(t, idx);
        let mut lay = default_layout();
        lay.cuts = vec![vec![encode_words(&ws).len() / 2 + (idx as usize % 3)]];
        lay.fmt = [BankFmt::B32, BankFmt::B16, BankFmt::B32A][(idx % 3) as usize];
        conform(&[ws], &lay, json!({"regions": t}), &format!("m{idx}"), loc);
    });

    // 2. faults at every position
    let base_menu: Vec<u64> = vec![1, 7, 1, 6, 3, 2, 1];
    let base = model_stream(&base_menu, 3);
    let nwords = base.len() as u64;
    rep.run("single-faults", nwords * 12 + 1, 120, true, "7-region model (edges, scaler blocks, first/last-tick edges): at every word position {drop it, duplicate it, replace it by each of 6 invalid words (top byte 0x7F, channel 59, almost-header, 0xFE000001/2/3D), flip the marker's top bit / toggle a timestamp's edge bit, corrupt a marker's counter by -4 / +4 / to 0 with the top bit intact}; plus first marker with the top bit set", |idx, loc| {
        let mut ws = base.clone();
        let what;
        if idx == nwords * 12 {
            if let Some(Word::Marker { top, .. }) = ws.iter_mut().find(|w| matches!(w, Word::Marker { counter: 0, .. })) {
                *top = true;
            }
            what = json!({"fault": "first marker has the top bit set"});
        } else {
            let (i, f) = ((idx / 12) as usize, idx % 12);
            match f {
                0 => {
                    ws.remove(i);
                    what = json!({"fault": "drop word", "at": i, "word": format!("{:?}", base[i])});
                }
                1 => {
                    let w = ws[i].clone();
                    ws.insert(i + 1, w);
                    what = json!({"fault": "duplicate word", "at": i, "word": format!("{:?}", base[i])});
                }
                2 => {
                    ws[i] = Word::Raw(vec![0x01, 0x02, 0x03, 0x7F]);
                    what = json!({"fault": "invalid word (top byte 0x7F)", "at": i});
                }
                3 => {
                    ws[i] = Word::Raw(vec![0x00, 0x00, 0x00, 0x80 | 59]);
                    what = json!({"fault": "invalid word (channel 59)", "at": i});
                }
                4 => {
                    ws[i] = Word::Raw(vec![0x3C, 0x00, 0x01, 0xFE]);
                    what = json!({"fault": "invalid word (almost a scaler header)", "at": i});
                }
                9 | 10 | 11 => {
                    // words with the scaler block's top byte 0xFE but another low part (a short 'length')
                    let w = [[0x01u8, 0x00, 0x00, 0xFE], [0x02, 0x00, 0x00, 0xFE], [0x3D, 0x00, 0x00, 0xFE]][(f - 9) as usize];
                    ws[i] = Word::Raw(w.to_vec());
                    what = json!({"fault": "invalid word (0xFE top byte, not the scaler header)", "at": i, "word": hex(&w)});
                }
                5 => {
                    match &mut ws[i] {
                        Word::Marker { top, .. } => *top = !*top,
                        Word::Ts { trailing, .. } => *trailing = !*trailing,
                        _ => {}
                    }
                    what = json!({"fault": "flip marker top bit / edge bit", "at": i, "word": format!("{:?}", base[i])});
                }
                _ => {
                    // counter corrupted, top bit intact (only markers; other words: nothing to do)
                    if let Word::Marker { counter, .. } = &mut ws[i] {
                        *counter = match f {
                            6 => counter.wrapping_sub(4) & 0x7F_FFFF,
                            7 => *counter + 4,
                            _ => 0,
                        };
                    } else {
                        return;
                    }
                    what = json!({"fault": "marker counter corrupted", "at": i, "word": format!("{:?}", base[i]), "to": format!("{:?}", ws[i])});
                }
            }
        }
        conform(&[ws], &default_layout(), what, &format!("f{idx}"), loc);
    });

    // 3. truncated tail at every byte length
    let bytes = encode_words(&base);
    rep.run("truncations", bytes.len() as u64 + 1, 120, true, "the same stream cut off at every byte length 0..=len (inside entries, inside scaler blocks, at entry boundaries)", |idx, loc| {
        let l = idx as usize;
        // words fully contained in the prefix, then a raw tail
        let mut ws = Vec::new();
        let mut pos = 0;
        for w in &base {
            let n = encode_words(std::slice::from_ref(w)).len();
            if pos + n <= l {
                ws.push(w.clone());
                pos += n;
            } else {
                break;
            }
        }
        if pos < l {
            ws.push(Word::Raw(bytes[pos..l].to_vec()));
        }
        conform(&[ws], &default_layout(), json!({"truncated_to_bytes": l}), &format!("t{idx}"), loc);
    });

    // 4. cut patterns: every single cut, every pair of cuts (short stream), bank / event / file grouping
    let short = model_stream(&[1, 7, 6, 3], 5);
    let sb = encode_words(&short).len();
    let fmts = [BankFmt::B32, BankFmt::B16, BankFmt::B32A];
    rep.run("single-cuts", (bytes.len() as u64 + 1) * 2, 120, true, "7-region stream cut into two banks at every byte position x {one bank per event, two banks per event}", |idx, loc| {
        let mut lay = default_layout();
        lay.cuts = vec![vec![(idx / 2) as usize]];
        lay.banks_per_event = 1 + (idx % 2) as usize;
        lay.fmt = fmts[(idx % 3) as usize];
        lay.files = 1 + (idx % 3) as usize;
        conform(&[base.clone()], &lay, json!({"cut_at": idx / 2, "banks_per_event": lay.banks_per_event}), &format!("c{idx}"), loc);
    });
    let pair_step = if thorough { 1 } else { 3 };
    let np = (sb / pair_step + 1) as u64;
    rep.run("double-cuts", np * np * 3, 120, true, "4-region stream cut at every pair of byte positions (quick: every third) x banks per event {1,2,3} with decoy banks/events, 1-2 files, lz4", |idx, loc| {
        let d = unrank(idx, &[np, np, 3]);
        let (a, b) = (d[0] as usize * pair_step, d[1] as usize * pair_step);
        if a > b {
            return;
        }
        let lay = Layout { cuts: vec![vec![a, b]], banks_per_event: 1 + d[2] as usize, files: 1 + (idx % 3) as usize, fmt: fmts[(idx % 3) as usize], lz4: idx % 5 == 0, decoys: idx % 2 == 1 };
        conform(&[short.clone()], &lay, json!({"cuts": [a, b]}), &format!("d{idx}"), loc);
    });

    // 5. several boards with independent streams, interleaved banks
    let small_menus = menus(3, 2);
    let nsm = small_menus.len() as u64;
    rep.run("multi-board", nsm * 3 * 2, 120, true, "2, 3 or 4 boards with independent 3-region streams (all menus with <= 2 deviations on the first board, shifted menus on the others), pieces interleaved, 1-3 banks per event, one board may be broken", |idx, loc| {
        let d = unrank(idx, &[nsm, 3, 2]);
        let nb = 2 + d[1] as usize;
        let mut boards = Vec::new();
        for b in 0..nb {
            let m = &small_menus[((d[0] + 17 * b as u64) % nsm) as usize];
            boards.push(model_stream(m, idx + b as u64));
        }
        if d[2] == 1 {
            // the last board lacks its counter-0 marker: the whole program must fail
            let last = boards.last_mut().unwrap();
            if let Some(p) = last.iter().position(|w| matches!(w, Word::Marker { counter: 0, .. })) {
                last.remove(p);
            }
        }
        let cuts: Vec<Vec<usize>> = boards.iter().enumerate().map(|(b, w)| {
            let n = encode_words(w).len();
            vec![n / 3 + b, 2 * n / 3 + 1]
        }).collect();
        let lay = Layout { cuts, banks_per_event: 1 + (idx % 3) as usize, files: 1 + (idx % 2) as usize, fmt: fmts[(idx % 3) as usize], lz4: idx % 4 == 0, decoys: idx % 3 == 0 };
        conform(&boards, &lay, json!({"boards": nb, "last_board_without_marker_0": d[2] == 1}), &format!("b{idx}"), loc);
    });

    let runs = RUNS.load(Ordering::Relaxed);
    rep.cov("states", json!(states.load(Ordering::Relaxed)));
    rep.cov("transitions", json!(traces.iter().map(|t| t.len() as u64).sum::<u64>()));
    rep.cov("traces_validated_against_impl", json!(runs));
    rep.cov("rows_compared", json!(rep.get_extra("rows_compared")));
    rep.cov("rows_with_time", json!(rep.get_extra("rows_with_time")));
    rep.finish()
}
