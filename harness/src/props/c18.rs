//! C18 — drift-time lookup is bounded, monotone, continuous and symmetric.
use crate::core::*;
use crate::props::c02::panic_site;
use crate::Args;
use alpha_g_physics::{Avalanche, SpacePoint, TryDriftLookupError};
use serde_json::json;
use uom::si::angle::radian;
use uom::si::f64::{Angle, Length, Time};
use uom::si::length::meter;
use uom::si::time::second;

pub type DriftJson = Vec<(Vec<(f64, f64, f64)>, f64)>;

pub fn load_drift() -> DriftJson {
    serde_json::from_slice(&std::fs::read(format!("{}/physics/data/simulation/drift_table/drift_1T_70Ar_30CO2.json", crate::core::repo_dir())).expect("drift table")).expect("drift table json")
}

#[derive(Debug, Clone, Copy, PartialEq)]
pub enum Look {
    Ok { r: f64, dphi: f64, z: f64 },
    TimeErr,
    ZErr,
}

pub fn lookup(z: f64, t: f64) -> Result<Look, String> {
    const PHI: f64 = 1.25;
    guard(|| {
        let a = Avalanche { t: Time::new::<second>(t), phi: Angle::new::<radian>(PHI), z: Length::new::<meter>(z), wire_amplitude: 1.0, pad_amplitude: 1.0 };
        match SpacePoint::try_from(a) {
            Ok(sp) => Look::Ok { r: sp.r.get::<meter>(), dphi: PHI - sp.phi.get::<radian>(), z: sp.z.get::<meter>() },
            Err(TryDriftLookupError::DriftTimeOutOfRange(_)) => Look::TimeErr,
            Err(TryDriftLookupError::AxialPositionOutOfRange(_)) => Look::ZErr,
        }
    })
}

fn next_up(x: f64) -> f64 {
    if x == 0.0 {
        return f64::from_bits(1);
    }
    let b = x.to_bits();
    f64::from_bits(if x > 0.0 { b + 1 } else { b - 1 })
}
fn next_down(x: f64) -> f64 {
    -next_up(-x)
}

pub fn run(args: &Args) -> i32 {
    let rep = super::report(args, "exploration");
    rep.set_rule("every case is one (z, t) lookup through SpacePoint::try_from(Avalanche) compared with an independent reading of the shipped JSON table; non-trivial = the reference says the lookup succeeds; distinct by hash of the (z, t) bit patterns");
    rep.assume("decided on the stated finite alphabet only: every tabulated time, its +-1 ulp neighbours, knot midpoints, quarter points and an 8 ns grid; every slice bound +-1 ulp and slice midpoints, both signs of z; nothing is claimed between these points");
    let tabs = load_drift();
    let nt = tabs.len();
    let zmax = tabs[nt - 1].1;

    // z alphabet per slice
    let mut zs: Vec<(usize, f64)> = Vec::new(); // (expected slice, z>=0)
    for (k, (_, zb)) in tabs.iter().enumerate() {
        let lo = if k == 0 { 0.0 } else { tabs[k - 1].1 };
        zs.push((k, *zb));
        zs.push((k, next_down(*zb)));
        zs.push((k, if k == 0 { 0.0 } else { next_up(lo) }));
        zs.push((k, 0.5 * (lo + zb)));
    }
    let maxlen = tabs.iter().map(|t| t.0.len()).max().unwrap();
    let tv: u64 = if args.tier == Tier::Thorough { 9 + 255 } else { 9 + 15 };
    let nz = zs.len() as u64;
    rep.cov("tables", json!(nt));
    rep.cov("largest_z_bound", json!(zmax));

    rep.run("knots-and-neighbours", nz * 2 * maxlen as u64 * tv, 60, true, "92 slices x z in {upper bound, upper bound -1ulp, lower bound +1ulp, midpoint} x sign x every tabulated time x {knot, +-1ulp, midpoint to next, quarter points, +2/+4/+6 ns; all 1/16 points (thorough: 1/256)}; each compared with the table and with the lookup 8 ns later and at -z", |idx, loc| {
        let d = unrank(idx, &[tv, maxlen as u64, 2, nz]);
        let (slice, zabs) = zs[d[3] as usize];
        let tab = &tabs[slice].0;
        let k = d[1] as usize;
        if k >= tab.len() {
            return;
        }
        let z = if d[2] == 1 { -zabs } else { zabs };
        let tk = tab[k].0;
        let tn = if k + 1 < tab.len() { tab[k + 1].0 } else { tk };
        let t = match d[0] {
            0 => tk,
            1 => next_up(tk),
            2 => next_down(tk),
            3 => 0.5 * (tk + tn),
            4 => tk + 0.25 * (tn - tk),
            5 => tk + 0.75 * (tn - tk),
            6 => tk + 2e-9,
            7 => tk + 4e-9,
            8 => tk + 6e-9,
            // 16 (quick) / 256 (thorough) subdivisions of the knot interval
            k => tk + (k - 8) as f64 / (tv - 8) as f64 * (tn - tk),
        };
        check_point(&tabs, slice, z, t, if d[0] == 0 { Some(k) } else { None }, loc);
    });

    // time range ends and far values
    let ts_extra = [-1e-6, -1e-9, -f64::from_bits(1), 5e-6, 4.3e-6, 1e-3, f64::MAX, -f64::MAX];
    rep.run("time-range-ends", nz * 2 * (ts_extra.len() as u64 + 4), 60, true, "every slice/z as above x {first time, first -1ulp, last time, last +1ulp, -1e-6, -1e-9, -denormal, 5e-6, 4.3e-6, 1e-3, +-f64::MAX}", |idx, loc| {
        let d = unrank(idx, &[ts_extra.len() as u64 + 4, 2, nz]);
        let (slice, zabs) = zs[d[2] as usize];
        let tab = &tabs[slice].0;
        let z = if d[1] == 1 { -zabs } else { zabs };
        let (first, last) = (tab[0].0, tab[tab.len() - 1].0);
        let t = match d[0] {
            0 => first,
            1 => next_down(first),
            2 => last,
            3 => next_up(last),
            k => ts_extra[k as usize - 4],
        };
        check_point(&tabs, slice, z, t, None, loc);
    });

    // z beyond / at the detector end
    let z_extra = [zmax, next_up(zmax), next_down(zmax), 1.152, 1.1520000000000001, 1.16, 1.3, 2.0, 1e9, f64::MAX];
    rep.run("z-range-ends", z_extra.len() as u64 * 2 * 12, 60, true, "z in {largest bound, +-1ulp, 1.152, 1.16, 1.3, 2, 1e9, f64::MAX} x sign x 12 times (in and out of range)", |idx, loc| {
        let d = unrank(idx, &[12, 2, z_extra.len() as u64]);
        let zabs = z_extra[d[2] as usize];
        let z = if d[1] == 1 { -zabs } else { zabs };
        let tab = &tabs[nt - 1].0;
        let t = match d[0] {
            0 => tab[0].0,
            1 => tab[tab.len() - 1].0,
            2 => -1e-6,
            3 => 5e-6,
            k => tab[(k as usize * 41) % tab.len()].0 + 1e-9,
        };
        check_point(&tabs, nt - 1, z, t, None, loc);
    });
    // history independence: lookups that jump back and forth across every slice boundary, in ONE case
    // (one thread, fixed order), each compared with the table (knot reproduction, Ok/Err class)
    rep.run("lookup-history", 1, 300, true, "a single sequential walk: for every slice boundary b_k the z sequence [b_k+1ulp, b_k, b_k-1ulp, b_k, b_(k+1), b_k, -b_k, b_k+1ulp, b_k] x times {first knot, a middle knot, last knot of slice k, last knot of slice k+1}; every lookup is judged on its own against the table, so an answer that depends on the previous lookup shows up", |_idx, loc| {
        for k in 0..tabs.len() - 1 {
            let b = tabs[k].1;
            let zseq = [next_up(b), b, next_down(b), b, tabs[k + 1].1, b, -b, next_up(b), b];
            let ta = &tabs[k].0;
            let tb = &tabs[k + 1].0;
            for t in [ta[0].0, ta[ta.len() / 2].0, ta[ta.len() - 1].0, tb[tb.len() - 1].0] {
                for z in zseq {
                    let s = ref_slice(&tabs, z.abs()).unwrap();
                    let knot = tabs[s].0.iter().position(|e| e.0.to_bits() == t.to_bits());
                    check_point(&tabs, s, z, t, knot, loc);
                }
            }
        }
    });
    rep.finish()
}

fn ref_slice(tabs: &DriftJson, zabs: f64) -> Option<usize> {
    if zabs > tabs[tabs.len() - 1].1 {
        return None;
    }
    tabs.iter().position(|(_, zb)| *zb >= zabs)
}

fn check_point(tabs: &DriftJson, slice_hint: usize, z: f64, t: f64, knot: Option<usize>, loc: &mut Local) {
    let h = hash64(&(z.to_bits(), t.to_bits()));
    let case = || json!({"z": z, "t": t, "z_bits": format!("{:016x}", z.to_bits()), "t_bits": format!("{:016x}", t.to_bits())});
    let got = match lookup(z, t) {
        Ok(g) => g,
        Err(p) => {
            loc.note(h, true, "panic");
            loc.violation(format!("panic:drift:{}", panic_site(&p)), json!({"case": case(), "panic": p}));
            return;
        }
    };
    let slice = ref_slice(tabs, z.abs());
    let expect_ok = match slice {
        None => false,
        Some(s) => {
            let tab = &tabs[s].0;
            t >= tab[0].0 && t <= tab[tab.len() - 1].0
        }
    };
    loc.note(h, expect_ok, match got {
        Look::Ok { .. } => "ok",
        Look::TimeErr => "time-out-of-range",
        Look::ZErr => "z-out-of-range",
    });
    match (slice, expect_ok, got) {
        (None, _, Look::ZErr) => return,
        (None, _, g) => {
            loc.violation("drift:z-beyond-table-not-rejected", json!({"case": case(), "got": format!("{g:?}")}));
            return;
        }
        (Some(_), false, Look::TimeErr) => return,
        (Some(_), false, g) => {
            loc.violation("drift:time-out-of-range-not-rejected", json!({"case": case(), "got": format!("{g:?}")}));
            return;
        }
        (Some(_), true, Look::Ok { .. }) => {}
        (Some(_), true, g) => {
            loc.violation("drift:in-range-lookup-rejected", json!({"case": case(), "got": format!("{g:?}")}));
            return;
        }
    }
    let s = slice.unwrap();
    let _ = slice_hint;
    let tab = &tabs[s].0;
    let Look::Ok { r, dphi, z: zout } = got else { unreachable!() };
    let (rmin, rmax) = tab.iter().fold((f64::MAX, f64::MIN), |a, e| (a.0.min(e.1), a.1.max(e.1)));
    let lmax = tab.iter().fold(f64::MIN, |a, e| a.max(e.2));
    if !(r >= rmin && r <= rmax) {
        loc.violation("drift:radius-outside-slice-range", json!({"case": case(), "r": r, "min": rmin, "max": rmax, "slice": s}));
    }
    if zout.to_bits() != z.to_bits() {
        loc.violation("drift:z-changed", json!({"case": case(), "z_out": zout}));
    }
    if !(dphi >= -1e-12 && dphi <= lmax + 1e-12) {
        loc.violation("drift:lorentz-correction-out-of-range", json!({"case": case(), "phi_in_minus_phi_out": dphi, "slice_max": lmax, "slice": s}));
    }
    if let Some(k) = knot {
        if (r - tab[k].1).abs() > 1e-12 {
            loc.violation("drift:knot-not-reproduced", json!({"case": case(), "r": r, "tabulated": tab[k].1, "slice": s, "knot": k}));
        }
    }
    // symmetric in z
    match lookup(-z, t) {
        Ok(Look::Ok { r: r2, dphi: d2, .. }) if r2.to_bits() == r.to_bits() && d2.to_bits() == dphi.to_bits() => {}
        other => loc.violation("drift:not-symmetric-in-z", json!({"case": case(), "at_z": format!("{got:?}"), "at_minus_z": format!("{other:?}")})),
    }
    // monotone and continuous: compare with the lookup 8 ns later (if in range)
    let t2 = t + 8e-9;
    if t2 <= tab[tab.len() - 1].0 {
        match lookup(z, t2) {
            Ok(Look::Ok { r: r2, .. }) => {
                if r2 > r {
                    loc.violation("drift:radius-increases-with-time", json!({"case": case(), "r": r, "r_8ns_later": r2}));
                }
                if (r2 - r).abs() >= 0.5e-3 {
                    // Known finding: the shipped table itself has steps >= 0.5 mm per 8 ns in some
                    // intervals. The key names the table interval, and is only used when the witness
                    // holds: both lookups agree (1e-12) with linear interpolation of the shipped table
                    // and one of the touched intervals has a tabulated step >= 0.5 mm.
                    let interp = |t: f64| -> Option<(f64, usize)> {
                        let k = tab.iter().rposition(|e| e.0 <= t)?;
                        if k + 1 >= tab.len() {
                            return Some((tab[k].1, k.saturating_sub(1)));
                        }
                        let f = (t - tab[k].0) / (tab[k + 1].0 - tab[k].0);
                        Some((tab[k].1 + f * (tab[k + 1].1 - tab[k].1), k))
                    };
                    let mut key = "drift:radius-jump".to_string();
                    if let (Some((ra, ka)), Some((rb, kb))) = (interp(t), interp(t2)) {
                        if (ra - r).abs() <= 1e-12 && (rb - r2).abs() <= 1e-12 && kb <= ka + 2 {
                            let big = |k: usize| k + 1 < tab.len() && tab[k].1 - tab[k + 1].1 >= 0.5e-3 - 1e-12;
                            if let Some(k) = (ka..=kb).find(|&k| big(k)) {
                                key = format!("drift:radius-jump:table-step:s{s}k{k}");
                            }
                        }
                    }
                    loc.violation(key, json!({"case": case(), "r": r, "r_8ns_later": r2, "slice": s}));
                }
            }
            other => loc.violation("drift:in-range-lookup-rejected", json!({"case": case(), "t_8ns_later": t2, "got": format!("{other:?}")})),
        }
    }
    // and with the previous tabulated knot: the interpolated radius never exceeds it
    if let Some(kprev) = tab.iter().rposition(|e| e.0 <= t) {
        if r > tab[kprev].1 + 1e-12 {
            loc.violation("drift:radius-increases-with-time", json!({"case": case(), "r": r, "previous_knot_r": tab[kprev].1}));
        }
        if kprev + 1 < tab.len() && r < tab[kprev + 1].1 - 1e-12 {
            loc.violation("drift:radius-increases-with-time", json!({"case": case(), "r": r, "next_knot_r": tab[kprev + 1].1}));
        }
    }
    if loc.want_sample() {
        loc.sample(json!({"case": case(), "result": format!("{got:?}")}));
    }
}
