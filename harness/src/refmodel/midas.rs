//! R8: MIDAS file writer (little endian; 16-bit, 32-bit and 64-bit-aligned 32-bit banks),
//! lz4 frame writer, and the process-level driver helpers of engine E3.
use std::io::Write;
use std::path::{Path, PathBuf};
use std::process::Command;

#[derive(Clone, Copy, Debug, PartialEq)]
pub enum BankFmt {
    B16,
    B32,
    B32A,
}

#[derive(Clone, Debug)]
pub struct MEvent {
    pub id: u16,
    pub serial: u32,
    pub timestamp: u32,
    pub fmt: BankFmt,
    pub banks: Vec<(String, Vec<u8>)>,
}

pub fn encode_event(e: &MEvent) -> Vec<u8> {
    let mut body = Vec::new();
    for (name, data) in &e.banks {
        assert!(name.len() == 4 && name.bytes().all(|b| b.is_ascii_alphanumeric()), "MIDAS bank names are 4 alphanumeric bytes: {name:?}");
        body.extend(name.as_bytes());
        match e.fmt {
            BankFmt::B16 => {
                body.extend(1u16.to_le_bytes()); // TID_BYTE
                body.extend(u16::try_from(data.len()).expect("16-bit bank too long").to_le_bytes());
            }
            BankFmt::B32 => {
                body.extend(1u32.to_le_bytes());
                body.extend((data.len() as u32).to_le_bytes());
            }
            BankFmt::B32A => {
                body.extend(1u32.to_le_bytes());
                body.extend((data.len() as u32).to_le_bytes());
                body.extend(0u32.to_le_bytes());
            }
        }
        body.extend(data);
        // padding is defined on the data length (8-byte alignment of the data), not on the position
        body.extend(std::iter::repeat(0u8).take((8 - data.len() % 8) % 8));
    }
    let flags: u32 = match e.fmt {
        BankFmt::B16 => 1,
        BankFmt::B32 => 17,
        BankFmt::B32A => 49,
    };
    let mut v = Vec::with_capacity(24 + body.len());
    v.extend(e.id.to_le_bytes());
    v.extend(0u16.to_le_bytes());
    v.extend(e.serial.to_le_bytes());
    v.extend(e.timestamp.to_le_bytes());
    v.extend((body.len() as u32 + 8).to_le_bytes());
    v.extend((body.len() as u32).to_le_bytes());
    v.extend(flags.to_le_bytes());
    v.extend(body);
    v
}

pub fn encode_file(run: u32, initial_ts: u32, final_ts: u32, events: &[MEvent]) -> Vec<u8> {
    let odb = b"{}";
    let mut v = Vec::new();
    v.extend(0x8000u16.to_le_bytes());
    v.extend(0x494Du16.to_le_bytes());
    v.extend(run.to_le_bytes());
    v.extend(initial_ts.to_le_bytes());
    v.extend((odb.len() as u32).to_le_bytes());
    v.extend(odb);
    for e in events {
        v.extend(encode_event(e));
    }
    v.extend(0x8001u16.to_le_bytes());
    v.extend(0x494Du16.to_le_bytes());
    v.extend(run.to_le_bytes());
    v.extend(final_ts.to_le_bytes());
    v.extend((odb.len() as u32).to_le_bytes());
    v.extend(odb);
    v
}

pub fn lz4_frame(data: &[u8]) -> Vec<u8> {
    let mut enc = lz4::EncoderBuilder::new().build(Vec::new()).expect("lz4 encoder");
    enc.write_all(data).expect("lz4 write");
    let (out, r) = enc.finish();
    r.expect("lz4 finish");
    out
}

pub fn bin_dir() -> String {
    format!("{}/.build/repo/release", crate::core::verif_dir())
}

/// A private scratch directory under /verif/.build/run, removed on drop.
pub struct Scratch(pub PathBuf);
impl Scratch {
    pub fn new(tag: &str) -> Scratch {
        let p = PathBuf::from(format!("{}/.build/run/{}-{}-{}", crate::core::verif_dir(), std::process::id(), rayon::current_thread_index().unwrap_or(99), tag));
        let _ = std::fs::remove_dir_all(&p);
        std::fs::create_dir_all(&p).expect("scratch dir");
        Scratch(p)
    }
    pub fn write(&self, name: &str, data: &[u8]) -> PathBuf {
        let p = self.0.join(name);
        std::fs::write(&p, data).expect("write scratch file");
        p
    }
}
impl Drop for Scratch {
    fn drop(&mut self) {
        let _ = std::fs::remove_dir_all(&self.0);
    }
}

pub struct RunOut {
    pub status: Option<i32>,
    pub stderr: String,
    /// the CSV file content if it was written
    pub csv: Option<String>,
}

/// Run one analysis binary on `files` (in this argument order) with `-o <dir>/out`.
pub fn run_binary(bin: &str, dir: &Path, files: &[PathBuf], threads: Option<usize>) -> RunOut {
    let out = dir.join("out.csv");
    let _ = std::fs::remove_file(&out);
    let mut c = Command::new(format!("{}/{bin}", bin_dir()));
    c.current_dir(dir).arg("-o").arg(dir.join("out")).args(files);
    if let Some(t) = threads {
        c.env("RAYON_NUM_THREADS", t.to_string());
    }
    let o = c.output().expect("spawn analysis binary (was bin/setup run?)");
    RunOut { status: o.status.code(), stderr: String::from_utf8_lossy(&o.stderr).into_owned(), csv: std::fs::read_to_string(&out).ok() }
}

/// CSV body without the two '#' header lines, split into rows of fields (header row first).
pub fn csv_rows(csv: &str) -> Vec<Vec<String>> {
    csv.lines().filter(|l| !l.starts_with('#')).map(|l| l.split(',').map(|s| s.to_string()).collect()).collect()
}
