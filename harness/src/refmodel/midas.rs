//! R8: MIDAS file writer (filled in with C19/C20).
