//! Reference models. None of this calls the code under test. Every decoder is
//! written from the property statements / documented layout tables as a field
//! table plus a rule list, not as a transliteration of the implementation.
pub mod tables;
pub mod midas;
pub mod sim;
pub mod calib;

use tables::*;

// ---------------------------------------------------------------------------
// R2: CRC-32C (Castagnoli), bit-wise, table-less. Standard presentation
// (init all-ones, reflected polynomial 0x82F63B78, final inversion).
// ---------------------------------------------------------------------------
pub fn crc32c(data: &[u8]) -> u32 {
    let mut crc = !0u32;
    for &b in data {
        crc ^= b as u32;
        for _ in 0..8 {
            crc = if crc & 1 == 1 { (crc >> 1) ^ 0x82F6_3B78 } else { crc >> 1 };
        }
    }
    !crc
}

pub fn crc32c_selftest() {
    // RFC 3720 B.4 test vectors
    assert_eq!(crc32c(&[0u8; 32]), 0x8A91_36AA);
    assert_eq!(crc32c(&[0xFFu8; 32]), 0x62A8_AB43);
    let inc: Vec<u8> = (0..32u8).collect();
    assert_eq!(crc32c(&inc), 0x46DD_794E);
    let dec: Vec<u8> = (0..32u8).rev().collect();
    assert_eq!(crc32c(&dec), 0x113F_DB5C);
    assert_eq!(crc32c(b"123456789"), 0xE306_9283);
}

// ---------------------------------------------------------------------------
// R1: ADC v3 packet
// ---------------------------------------------------------------------------
#[derive(Clone, Debug, PartialEq)]
pub struct RefAdc {
    pub accepted_trigger: u16,
    pub module: u8,
    pub channel: u8, // raw byte 5: 0..=15 BV, 128..=159 wire
    pub requested: u16,
    pub event_timestamp: u64,
    pub mac: Option<[u8; 6]>,
    pub trigger_offset: Option<i32>,
    pub build_timestamp: Option<u32>,
    pub waveform: Vec<i16>,
    pub baseline: i16,
    pub keep_last: u16,
    pub keep_bit: bool,
    pub suppression: bool,
}

pub fn a16_mac_known(mac: &[u8]) -> bool {
    A16_BOARDS.iter().any(|(_, m)| m == mac)
}

fn be16(b: &[u8], o: usize) -> u16 {
    u16::from_be_bytes([b[o], b[o + 1]])
}
fn be32(b: &[u8], o: usize) -> u32 {
    u32::from_be_bytes([b[o], b[o + 1], b[o + 2], b[o + 3]])
}
fn le16(b: &[u8], o: usize) -> u16 {
    u16::from_le_bytes([b[o], b[o + 1]])
}
fn le32(b: &[u8], o: usize) -> u32 {
    u32::from_le_bytes([b[o], b[o + 1], b[o + 2], b[o + 3]])
}

/// floor of the mean of the first 64 samples
pub fn adc_floor_mean64(w: &[i16]) -> i64 {
    let s: i64 = w[..64].iter().map(|&x| x as i64).sum();
    s.div_euclid(64)
}

pub fn ref_adc_decode(b: &[u8]) -> Option<RefAdc> {
    let n = b.len();
    if n < 16 {
        return None;
    }
    let footer = be16(b, n - 4);
    let baseline = be16(b, n - 2) as i16;
    let keep_last = footer & 0x0FFF;
    let keep_bit = footer & 0x1000 != 0;
    let suppression = footer & 0x2000 != 0;
    let channel = b[5];
    let common = [
        b[0] == 1,
        b[1] == 3,
        b[4] <= 7,
        channel <= 15 || (128..=159).contains(&channel),
    ];
    if common.contains(&false) {
        return None;
    }
    let requested = be16(b, 6);
    if n == 16 {
        if !(suppression && !keep_bit && keep_last == 0) {
            return None;
        }
        return Some(RefAdc {
            accepted_trigger: be16(b, 2),
            module: b[4],
            channel,
            requested,
            event_timestamp: be32(b, 8) as u64,
            mac: None,
            trigger_offset: None,
            build_timestamp: None,
            waveform: vec![],
            baseline,
            keep_last,
            keep_bit,
            suppression,
        });
    }
    if n < 36 || (n - 36) % 2 != 0 {
        return None;
    }
    let ns = (n - 36) / 2;
    let waveform: Vec<i16> = (0..ns).map(|i| be16(b, 32 + 2 * i) as i16).collect();
    let ns = ns as i64;
    let req = requested as i64;
    let last_index = (keep_last as i64 - 1) * 2 - 2;
    let rules = [
        b[12] == 0 && b[13] == 0,
        a16_mac_known(&b[14..20]),
        ns >= 64,
        ns >= 64 && adc_floor_mean64(&waveform) == baseline as i64,
        if suppression {
            keep_bit && keep_last >= 34 && ns > last_index && ns <= req - 2
        } else {
            (if keep_bit { keep_last >= 34 && ns > last_index } else { keep_last == 0 }) && ns == req - 2
        },
    ];
    if rules.contains(&false) {
        return None;
    }
    Some(RefAdc {
        accepted_trigger: be16(b, 2),
        module: b[4],
        channel,
        requested,
        event_timestamp: ((be32(b, 20) as u64) << 32) | be32(b, 8) as u64,
        mac: Some(b[14..20].try_into().unwrap()),
        trigger_offset: Some(be32(b, 24) as i32),
        build_timestamp: Some(be32(b, 28)),
        waveform,
        baseline,
        keep_last,
        keep_bit,
        suppression,
    })
}

/// Encode from field values (the two unused footer bits are given explicitly).
pub fn ref_adc_encode(p: &RefAdc, unused_bits: u16) -> Vec<u8> {
    let mut v = vec![1u8, 3];
    v.extend(p.accepted_trigger.to_be_bytes());
    v.push(p.module);
    v.push(p.channel);
    v.extend(p.requested.to_be_bytes());
    v.extend(((p.event_timestamp & 0xFFFF_FFFF) as u32).to_be_bytes());
    if let Some(mac) = p.mac {
        v.extend([0, 0]);
        v.extend(mac);
        v.extend(((p.event_timestamp >> 32) as u32).to_be_bytes());
        v.extend(p.trigger_offset.unwrap_or(0).to_be_bytes());
        v.extend(p.build_timestamp.unwrap_or(0).to_be_bytes());
        for s in &p.waveform {
            v.extend(s.to_be_bytes());
        }
    }
    let footer = (p.keep_last & 0x0FFF)
        | if p.keep_bit { 0x1000 } else { 0 }
        | if p.suppression { 0x2000 } else { 0 }
        | (unused_bits & 0xC000);
    v.extend(footer.to_be_bytes());
    v.extend(p.baseline.to_be_bytes());
    v
}

// ---------------------------------------------------------------------------
// R2: PWB chunk
// ---------------------------------------------------------------------------
#[derive(Clone, Debug, PartialEq)]
pub struct RefChunk {
    pub device_id: u32,
    pub packet_sequence: u32,
    pub channel_sequence: u16,
    pub chip: u8,
    pub flags: u8,
    pub chunk_id: u16,
    pub payload: Vec<u8>,
}

pub fn pwb_device_known(id: u32) -> bool {
    PWB_BOARDS.iter().any(|(_, _, d)| *d == id)
}
pub fn pwb_mac_known(mac: &[u8]) -> bool {
    PWB_BOARDS.iter().any(|(_, m, _)| m == mac)
}

pub fn ref_chunk_decode(b: &[u8]) -> Option<RefChunk> {
    let n = b.len();
    if n < 28 || n % 4 != 0 {
        return None;
    }
    let declared = le16(b, 14) as usize;
    let padded = n - 24; // bytes between header and payload CRC
    let rules = [
        pwb_device_known(le32(b, 0)),
        b[10] <= 3,
        b[11] <= 1,
        declared <= padded && padded - declared <= 3,
    ];
    if rules.contains(&false) {
        return None;
    }
    if b[20 + declared..n - 4].iter().any(|&x| x != 0) {
        return None;
    }
    if le32(b, 16) != !crc32c(&b[..16]) {
        return None;
    }
    if le32(b, n - 4) != !crc32c(&b[20..n - 4]) {
        return None;
    }
    Some(RefChunk {
        device_id: le32(b, 0),
        packet_sequence: le32(b, 4),
        channel_sequence: le16(b, 8),
        chip: b[10],
        flags: b[11],
        chunk_id: le16(b, 12),
        payload: b[20..20 + declared].to_vec(),
    })
}

/// Encode with correct CRCs and minimal zero padding. `payload.len()` must fit u16.
pub fn ref_chunk_encode(c: &RefChunk) -> Vec<u8> {
    let mut v = Vec::with_capacity(28 + c.payload.len());
    v.extend(c.device_id.to_le_bytes());
    v.extend(c.packet_sequence.to_le_bytes());
    v.extend(c.channel_sequence.to_le_bytes());
    v.push(c.chip);
    v.push(c.flags);
    v.extend(c.chunk_id.to_le_bytes());
    v.extend((c.payload.len() as u16).to_le_bytes());
    let h = !crc32c(&v);
    v.extend(h.to_le_bytes());
    v.extend(&c.payload);
    while v.len() % 4 != 0 {
        v.push(0);
    }
    let p = !crc32c(&v[20..]);
    v.extend(p.to_le_bytes());
    v
}

/// Recompute both CRC words of a chunk-shaped byte string in place (used
/// after a deliberate deviation so that the deviation reaches deep code).
pub fn chunk_fix_crcs(b: &mut [u8]) {
    let n = b.len();
    if n < 28 {
        return;
    }
    let h = !crc32c(&b[..16]);
    b[16..20].copy_from_slice(&h.to_le_bytes());
    let p = !crc32c(&b[20..n - 4]);
    b[n - 4..].copy_from_slice(&p.to_le_bytes());
}

// ---------------------------------------------------------------------------
// R3: PWB v2 packet
// ---------------------------------------------------------------------------
#[derive(Clone, Copy, Debug, PartialEq, Eq, PartialOrd, Ord, Hash)]
pub enum RefPwbChan {
    Reset(u16),
    Fpn(u16),
    Pad(u16),
}

/// readout index (1..=79) -> channel, typed independently from the doc table
pub fn ref_readout_to_chan(i: u16) -> Option<RefPwbChan> {
    const FPN: [u16; 4] = [16, 29, 54, 67];
    if !(1..=79).contains(&i) {
        return None;
    }
    if i <= 3 {
        return Some(RefPwbChan::Reset(i));
    }
    if let Some(k) = FPN.iter().position(|&f| f == i) {
        return Some(RefPwbChan::Fpn(k as u16 + 1));
    }
    let fpn_below = FPN.iter().filter(|&&f| f < i).count() as u16;
    Some(RefPwbChan::Pad(i - 3 - fpn_below))
}

#[derive(Clone, Debug, PartialEq)]
pub struct RefPwb {
    pub chip: u8, // b'A'..=b'D'
    pub compression: u8,
    pub trigger_source: u8,
    pub mac: [u8; 6],
    pub trigger_delay: u16,
    pub trigger_timestamp: u64, // 48 bit
    pub last_sca_cell: u16,
    pub requested: u16,
    pub sent_mask: u128,
    pub threshold_mask: u128,
    pub event_counter: u32,
    pub fifo_max_depth: u16,
    pub write_depth: u8,
    pub read_depth: u8,
    /// (readout index, samples) in ascending readout order
    pub channels: Vec<(u16, Vec<i16>)>,
}

fn mask80(b: &[u8], o: usize) -> u128 {
    let mut a = [0u8; 16];
    a[..10].copy_from_slice(&b[o..o + 10]);
    u128::from_le_bytes(a)
}

pub fn mask_to_readouts(m: u128) -> Vec<u16> {
    (0..80u16).filter(|i| m >> i & 1 == 1).map(|i| i + 1).collect()
}

pub fn ref_pwb_decode(b: &[u8]) -> Option<RefPwb> {
    let n = b.len();
    if n < 56 {
        return None;
    }
    let requested = le16(b, 22);
    let sent = mask80(b, 24);
    let thr = mask80(b, 34);
    let rules = [
        b[0] == 2,
        (b'A'..=b'D').contains(&b[1]),
        b[2] == 0,
        matches!(b[3], 0 | 1 | 3),
        pwb_mac_known(&b[4..10]),
        b[18] == 0 && b[19] == 0,
        le16(b, 20) <= 511,
        requested <= 511,
        sent >> 79 & 1 == 0,
        thr >> 79 & 1 == 0,
    ];
    if rules.contains(&false) {
        return None;
    }
    let readouts = mask_to_readouts(sent);
    let rs = requested as usize;
    let block = 4 + 2 * rs + if rs % 2 == 1 { 2 } else { 0 };
    if n != 52 + block * readouts.len() + 4 {
        return None;
    }
    let mut channels = Vec::new();
    for (k, &ro) in readouts.iter().enumerate() {
        let o = 52 + k * block;
        if le16(b, o) != ro || le16(b, o + 2) != requested {
            return None;
        }
        if rs % 2 == 1 && (b[o + 4 + 2 * rs] != 0 || b[o + 5 + 2 * rs] != 0) {
            return None;
        }
        channels.push((ro, (0..rs).map(|i| le16(b, o + 4 + 2 * i) as i16).collect()));
    }
    if b[n - 4..] != [0xCC; 4] {
        return None;
    }
    let mut ts = [0u8; 8];
    ts.copy_from_slice(&b[12..20]);
    Some(RefPwb {
        chip: b[1],
        compression: b[2],
        trigger_source: b[3],
        mac: b[4..10].try_into().unwrap(),
        trigger_delay: le16(b, 10),
        trigger_timestamp: u64::from_le_bytes(ts),
        last_sca_cell: le16(b, 20),
        requested,
        sent_mask: sent,
        threshold_mask: thr,
        event_counter: le32(b, 44),
        fifo_max_depth: le16(b, 48),
        write_depth: b[50],
        read_depth: b[51],
        channels,
    })
}

pub fn ref_pwb_encode(p: &RefPwb) -> Vec<u8> {
    let mut v = vec![2, p.chip, p.compression, p.trigger_source];
    v.extend(p.mac);
    v.extend(p.trigger_delay.to_le_bytes());
    v.extend(p.trigger_timestamp.to_le_bytes());
    v.extend(p.last_sca_cell.to_le_bytes());
    v.extend(p.requested.to_le_bytes());
    v.extend(&p.sent_mask.to_le_bytes()[..10]);
    v.extend(&p.threshold_mask.to_le_bytes()[..10]);
    v.extend(p.event_counter.to_le_bytes());
    v.extend(p.fifo_max_depth.to_le_bytes());
    v.push(p.write_depth);
    v.push(p.read_depth);
    for (ro, w) in &p.channels {
        v.extend(ro.to_le_bytes());
        v.extend(p.requested.to_le_bytes());
        for s in w {
            v.extend(s.to_le_bytes());
        }
        if p.requested % 2 == 1 {
            v.extend([0, 0]);
        }
    }
    v.extend([0xCC; 4]);
    v
}

// ---------------------------------------------------------------------------
// R4: TRG v3 packet
// ---------------------------------------------------------------------------
#[derive(Clone, Debug, PartialEq)]
pub struct RefTrg {
    pub udp_counter: u32,
    pub timestamp: u32,
    pub output: u32,
    pub input: u32,
    pub pulser: u32,
    pub trigger_bitmap: u32,
    pub nim_bitmap: u32,
    pub esata_bitmap: u32,
    pub mlu: bool,
    pub aw16_prompt: u16,
    pub drift_veto: u32,
    pub scaledown: u32,
    pub aw16_multiplicity: u8,
    pub aw16_bus: u16,
    pub bsc64_bus: u64,
    pub bsc64_multiplicity: u8,
    pub coincidence_latch: u8,
    pub firmware: u32,
}

pub fn ref_trg_decode(b: &[u8]) -> Option<RefTrg> {
    if b.len() != 80 {
        return None;
    }
    let w: Vec<u32> = (0..20).map(|i| le32(b, 4 * i)).collect();
    let (output, input, drift, scale) = (w[3], w[4], w[10], w[11]);
    let low28 = 0x0FFF_FFFF;
    let rules = [
        w[0] >> 31 == 0,
        w[1] >> 28 == 0x8,
        w[19] >> 28 == 0xE,
        w[1] & low28 == output & low28,
        w[19] & low28 == output & low28,
        w[9] & 0x7FFF_0000 == 0,
        w[12] == 0,
        w[13] >> 24 == 0,
        w[16] >> 8 == 0,
        w[17] >> 8 == 0,
        output <= scale,
        scale <= drift,
        drift <= input,
    ];
    if rules.contains(&false) {
        return None;
    }
    Some(RefTrg {
        udp_counter: w[0],
        timestamp: w[2],
        output,
        input,
        pulser: w[5],
        trigger_bitmap: w[6],
        nim_bitmap: w[7],
        esata_bitmap: w[8],
        mlu: w[9] >> 31 == 1,
        aw16_prompt: w[9] as u16,
        drift_veto: drift,
        scaledown: scale,
        aw16_multiplicity: (w[13] >> 16) as u8,
        aw16_bus: w[13] as u16,
        bsc64_bus: (w[14] as u64) | ((w[15] as u64) << 32),
        bsc64_multiplicity: w[16] as u8,
        coincidence_latch: w[17] as u8,
        firmware: w[18],
    })
}

pub fn ref_trg_encode(p: &RefTrg) -> Vec<u8> {
    let low28 = 0x0FFF_FFFF;
    let w: [u32; 20] = [
        p.udp_counter,
        0x8000_0000 | (p.output & low28),
        p.timestamp,
        p.output,
        p.input,
        p.pulser,
        p.trigger_bitmap,
        p.nim_bitmap,
        p.esata_bitmap,
        (if p.mlu { 0x8000_0000 } else { 0 }) | p.aw16_prompt as u32,
        p.drift_veto,
        p.scaledown,
        0,
        ((p.aw16_multiplicity as u32) << 16) | p.aw16_bus as u32,
        p.bsc64_bus as u32,
        (p.bsc64_bus >> 32) as u32,
        p.bsc64_multiplicity as u32,
        p.coincidence_latch as u32,
        p.firmware,
        0xE000_0000 | (p.output & low28),
    ];
    w.iter().flat_map(|x| x.to_le_bytes()).collect()
}

// ---------------------------------------------------------------------------
// R5: Chronobox FIFO
// ---------------------------------------------------------------------------
#[derive(Clone, Copy, Debug, PartialEq, Eq, Hash)]
pub enum RefFifo {
    /// channel, trailing edge?, 24-bit timestamp with bit 0 cleared
    Ts { channel: u8, trailing: bool, timestamp: u32 },
    Marker { top_bit: bool, counter: u32 },
}

#[derive(Clone, Copy, Debug, PartialEq, Eq)]
pub enum WordClass {
    Ts(RefFifo),
    Marker(RefFifo),
    ScalerStart,
    Invalid,
}

pub const SCALER_BLOCK_BYTES: usize = 244;

pub fn ref_classify(word: [u8; 4]) -> WordClass {
    let low24 = u32::from_le_bytes([word[0], word[1], word[2], 0]);
    let top = word[3];
    if top == 0xFF {
        return WordClass::Marker(RefFifo::Marker { top_bit: low24 >> 23 == 1, counter: low24 & 0x7F_FFFF });
    }
    if top & 0x80 != 0 && (top & 0x7F) < 59 {
        return WordClass::Ts(RefFifo::Ts { channel: top & 0x7F, trailing: low24 & 1 == 1, timestamp: low24 & 0xFF_FFFE });
    }
    if word == [0x3C, 0x00, 0x00, 0xFE] {
        return WordClass::ScalerStart;
    }
    WordClass::Invalid
}

/// Longest-prefix parse. Returns (entries, consumed bytes).
pub fn ref_fifo_parse(b: &[u8]) -> (Vec<RefFifo>, usize) {
    let mut pos = 0;
    let mut out = Vec::new();
    while b.len() - pos >= 4 {
        match ref_classify(b[pos..pos + 4].try_into().unwrap()) {
            WordClass::Ts(e) | WordClass::Marker(e) => {
                out.push(e);
                pos += 4;
            }
            WordClass::ScalerStart => {
                if b.len() - pos >= SCALER_BLOCK_BYTES {
                    pos += SCALER_BLOCK_BYTES;
                } else {
                    break;
                }
            }
            WordClass::Invalid => break,
        }
    }
    (out, pos)
}
