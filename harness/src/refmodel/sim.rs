//! R7: forward detector model (filled in with C09..C13).
