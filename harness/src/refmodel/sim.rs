//! R7: independent forward model of the detector (ionisation along helices,
//! drift with the shipped tables, wire/pad signals from the shipped response
//! functions with neighbour induction, digitisation, packing into spec-conformant
//! banks under the simulation run number), plus inverse channel maps.
use crate::refmodel::tables::*;
use crate::refmodel::*;
use alpha_g_detector::alpha16::aw_map::TpcWirePosition;
use alpha_g_detector::alpha16::{Adc32ChannelId, BoardId as ABoard};
use alpha_g_detector::padwing::map::TpcPadPosition;
use alpha_g_detector::padwing::{AfterId, BoardId as PBoard, PadChannelId};
use std::collections::BTreeMap;
use std::f64::consts::PI;
use std::sync::OnceLock;

pub const SIM_RUN: u32 = u32::MAX;
pub const NEIGHBOR: [f64; 5] = [1.0, -0.1275, -0.0365, -0.012, -0.0042];
pub const DELAY: usize = 100;
pub const WIRE_N: usize = 697; // requested 699
pub const PAD_N: usize = 510;
pub const WIRE_BASELINE: i16 = 3000;
pub const PAD_BASELINE: i16 = 1725;

pub struct Maps {
    /// wire index -> (board name, channel 0..32)
    pub wire: Vec<(&'static str, u8)>,
    /// (column, row) -> (board name, chip 0..4, pad channel 1..=72)
    pub pad: BTreeMap<(usize, usize), (&'static str, u8, u16)>,
    pub wire_resp: Vec<f64>,
    /// negated, i.e. as it appears on the pads (negative going)
    pub pad_resp: Vec<f64>,
    pub drift: Vec<(Vec<(f64, f64, f64)>, f64)>,
}

fn rebin(raw: &[f64]) -> Vec<f64> {
    raw.chunks_exact(16).map(|c| c.iter().sum()).collect()
}

pub fn maps() -> &'static Maps {
    static M: OnceLock<Maps> = OnceLock::new();
    M.get_or_init(|| Maps::load(SIM_RUN))
}

impl Maps {
    pub fn load(run: u32) -> Self {
        let mut wire = vec![("", 0u8); 256];
        for (name, _) in A16_BOARDS {
            let b = ABoard::try_from(name).unwrap();
            for ch in 0..32u8 {
                let w = TpcWirePosition::try_new(run, b, Adc32ChannelId::try_from(ch).unwrap()).expect("wire map for sim run");
                wire[usize::from(w)] = (name, ch);
            }
        }
        let mut pad = BTreeMap::new();
        for (name, _, _) in PWB_BOARDS {
            let b = PBoard::try_from(name).unwrap();
            for chip in 0..4u8 {
                for ch in 1..=72u16 {
                    if let Ok(p) = TpcPadPosition::try_new(run, b, AfterId::try_from(chip).unwrap(), PadChannelId::try_from(ch).unwrap()) {
                        pad.insert((usize::from(p.column), usize::from(p.row)), (name, chip, ch));
                    }
                }
            }
        }
        assert_eq!(pad.len(), 18432, "pad map must cover the detector");
        let rd = |p: &str| std::fs::read(format!("{}/physics/data/simulation/{p}", crate::core::repo_dir())).expect("simulation data file");
        let w: Vec<f64> = serde_json::from_slice(&rd("tpc_response/wires.json")).unwrap();
        let p: Vec<f64> = serde_json::from_slice(&rd("tpc_response/pads.json")).unwrap();
        let drift = serde_json::from_slice(&rd("drift_table/drift_1T_70Ar_30CO2.json")).unwrap();
        Maps { wire, pad, wire_resp: rebin(&w), pad_resp: rebin(&p).into_iter().map(|x| -x).collect(), drift }
    }
    /// invert the drift table of the z slice: radius -> (drift time, Lorentz angle)
    pub fn drift_time(&self, r: f64, z: f64) -> Option<(f64, f64)> {
        let za = z.abs();
        let (tab, _) = self.drift.iter().find(|(_, zb)| *zb >= za)?;
        if r > tab[0].1 || r < tab[tab.len() - 1].1 {
            return None;
        }
        for k in 1..tab.len() {
            let (t0, r0, l0) = tab[k - 1];
            let (t1, r1, l1) = tab[k];
            if r <= r0 && r >= r1 && r0 > r1 {
                let f = (r0 - r) / (r0 - r1);
                return Some((t0 + f * (t1 - t0), l0 + f * (l1 - l0)));
            }
        }
        None
    }
}

#[derive(Clone, Copy, Debug)]
pub struct TrackSpec {
    pub phi0: f64,
    pub radius: f64,
    pub charge: f64,
    pub lambda: f64,
}

#[derive(Clone, Debug)]
pub struct EventSpec {
    pub vertex: [f64; 3],
    pub tracks: Vec<TrackSpec>,
    pub amp: f64,
    pub sigma_z: f64,
    pub step: f64,
}

#[derive(Clone, Copy, Debug)]
pub struct Hit {
    pub wire: usize,
    pub bin: usize,
    pub z: f64,
    pub amp: f64,
}

pub fn ionisation(maps: &Maps, ev: &EventSpec) -> Vec<Hit> {
    let mut hits = Vec::new();
    for tr in &ev.tracks {
        let d = (tr.phi0.cos(), tr.phi0.sin());
        let n = (-d.1, d.0);
        let q = tr.charge;
        let c = (ev.vertex[0] + q * tr.radius * n.0, ev.vertex[1] + q * tr.radius * n.1);
        let beta0 = (ev.vertex[1] - c.1).atan2(ev.vertex[0] - c.0);
        let mut s = 0.0;
        while s < 0.6 {
            let a = beta0 + q * s / tr.radius;
            let x = c.0 + tr.radius * a.cos();
            let y = c.1 + tr.radius * a.sin();
            let z = ev.vertex[2] + tr.lambda * s;
            let r = x.hypot(y);
            s += ev.step;
            if r > 0.19 {
                break;
            }
            if let Some((t, lor)) = maps.drift_time(r, z) {
                let phi = (y.atan2(x) + lor).rem_euclid(2.0 * PI);
                let shifted = ((phi / (2.0 * PI / 256.0)).floor() as usize) % 256;
                let wire = (shifted + 8) & 0xff;
                let bin = (t * 62.5e6).round() as usize;
                hits.push(Hit { wire, bin, z, amp: ev.amp });
            }
        }
    }
    hits
}

/// Calibrated (baseline-subtracted, after-delay) signals
#[derive(Clone, Default)]
pub struct Signals {
    pub wires: BTreeMap<usize, Vec<f64>>,
    pub pads: BTreeMap<(usize, usize), Vec<f64>>,
}

pub fn pad_row_of(z: f64) -> i64 {
    ((z + 1.152) / 0.004 - 0.5).round() as i64
}
pub fn pad_row_z(row: usize) -> f64 {
    (row as f64 + 0.5) * 0.004 - 1.152
}
pub fn wire_column(wire: usize) -> usize {
    ((wire + 256 - 8) & 0xff) / 8
}

pub fn signals(maps: &Maps, sigma_z: f64, hits: &[Hit]) -> Signals {
    let mut out = Signals::default();
    let wl = WIRE_N - DELAY;
    let pl = PAD_N - DELAY;
    for h in hits {
        for d in -4i32..=4 {
            let w = ((h.wire as i32 + d).rem_euclid(256)) as usize;
            let f = NEIGHBOR[d.unsigned_abs() as usize] * h.amp;
            let sig = out.wires.entry(w).or_insert_with(|| vec![0.0; wl]);
            for (k, r) in maps.wire_resp.iter().enumerate() {
                if h.bin + k < wl {
                    sig[h.bin + k] += f * r;
                }
            }
        }
        let col = wire_column(h.wire);
        let row0 = pad_row_of(h.z);
        for row in (row0 - 6)..=(row0 + 6) {
            if !(0..576).contains(&row) {
                continue;
            }
            let zc = pad_row_z(row as usize);
            let q = h.amp * (-(zc - h.z).powi(2) / (2.0 * sigma_z * sigma_z)).exp();
            if q < 1e-3 * h.amp {
                continue;
            }
            let sig = out.pads.entry((col, row as usize)).or_insert_with(|| vec![0.0; pl]);
            for (k, r) in maps.pad_resp.iter().enumerate() {
                if h.bin + k < pl {
                    sig[h.bin + k] += q * r;
                }
            }
        }
    }
    out
}

pub fn readout_index(pad_channel: u16) -> u16 {
    (1..=79u16).find(|&ro| ref_readout_to_chan(ro) == Some(RefPwbChan::Pad(pad_channel))).expect("pad channel 1..=72")
}

pub fn wire_bank_name(board: &str, ch: u8) -> String {
    format!("C{board}{}", std::char::from_digit(ch as u32, 32).unwrap().to_ascii_uppercase())
}

pub fn a16_mac(board: &str) -> [u8; 6] {
    A16_BOARDS.iter().find(|b| b.0 == board).unwrap().1
}
pub fn pwb_board(board: &str) -> (&'static str, [u8; 6], u32) {
    *PWB_BOARDS.iter().find(|b| b.0 == board).unwrap()
}

/// spec-conformant ADC packet for a wire channel, suppression off
pub fn wire_packet(board: &str, ch: u8, wf: &[i16]) -> Vec<u8> {
    let baseline = if wf.len() >= 64 { adc_floor_mean64(wf) as i16 } else { 0 };
    ref_adc_encode(
        &RefAdc {
            accepted_trigger: 4,
            module: 0,
            channel: 128 + ch,
            requested: (wf.len() + 2) as u16,
            event_timestamp: 7,
            mac: Some(a16_mac(board)),
            trigger_offset: Some(0),
            build_timestamp: Some(0),
            waveform: wf.to_vec(),
            baseline,
            keep_last: 0,
            keep_bit: false,
            suppression: false,
        },
        0,
    )
}

pub fn trg_packet(ts: u32) -> Vec<u8> {
    ref_trg_encode(&RefTrg {
        udp_counter: 1,
        timestamp: ts,
        output: 3,
        input: 9,
        pulser: 0,
        trigger_bitmap: 0,
        nim_bitmap: 0,
        esata_bitmap: 0,
        mlu: false,
        aw16_prompt: 0,
        drift_veto: 5,
        scaledown: 4,
        aw16_multiplicity: 0,
        aw16_bus: 0,
        bsc64_bus: 0,
        bsc64_multiplicity: 0,
        coincidence_latch: 0,
        firmware: 0,
    })
}

/// PWB payload for one (board, chip) with the given (readout index, waveform) channels
pub fn pwb_payload(board: &str, chip: u8, requested: u16, chans: &[(u16, Vec<i16>)]) -> Vec<u8> {
    let mut chans = chans.to_vec();
    chans.sort_by_key(|c| c.0);
    let mut sent = 0u128;
    for (ro, _) in &chans {
        sent |= 1 << (ro - 1);
    }
    ref_pwb_encode(&RefPwb {
        chip: b'A' + chip,
        compression: 0,
        trigger_source: 0,
        mac: pwb_board(board).1,
        trigger_delay: 0,
        trigger_timestamp: 0,
        last_sca_cell: 0,
        requested,
        sent_mask: sent,
        threshold_mask: sent,
        event_counter: 1,
        fifo_max_depth: 0,
        write_depth: 0,
        read_depth: 0,
        channels: chans,
    })
}

/// chunk a payload into PCxx banks
pub fn pwb_banks(board: &str, chip: u8, payload: &[u8], chunk_size: usize) -> Vec<(String, Vec<u8>)> {
    let n = payload.len().div_ceil(chunk_size).max(1);
    payload
        .chunks(chunk_size)
        .enumerate()
        .map(|(i, part)| {
            (
                format!("PC{board}"),
                ref_chunk_encode(&RefChunk { device_id: pwb_board(board).2, packet_sequence: 0, channel_sequence: 0, chip, flags: (i + 1 == n) as u8, chunk_id: i as u16, payload: part.to_vec() }),
            )
        })
        .collect()
}

pub fn digitise_wire(sig: &[f64]) -> Vec<i16> {
    let mut wf = vec![WIRE_BASELINE; DELAY + sig.len()];
    for (k, v) in sig.iter().enumerate() {
        wf[DELAY + k] = (WIRE_BASELINE as f64 + v).round().clamp(-32768.0, 32764.0) as i16;
    }
    wf
}
pub fn digitise_pad(sig: &[f64]) -> Vec<i16> {
    let mut wf = vec![PAD_BASELINE; DELAY + sig.len()];
    for (k, v) in sig.iter().enumerate() {
        wf[DELAY + k] = (PAD_BASELINE as f64 + v).round().clamp(-2048.0, 2047.0) as i16;
    }
    wf
}

/// ADC packet with data suppression enabled: the waveform is cut after `keep` samples (>= 65), keep_bit set,
/// keep_last 34 (the smallest legal value), requested_samples that of the full waveform.
pub fn wire_packet_suppressed(board: &str, ch: u8, wf: &[i16], keep: usize) -> Vec<u8> {
    let keep = keep.clamp(65, wf.len());
    ref_adc_encode(
        &RefAdc {
            accepted_trigger: 4,
            module: 0,
            channel: 128 + ch,
            requested: (wf.len() + 2) as u16,
            event_timestamp: 7,
            mac: Some(a16_mac(board)),
            trigger_offset: Some(0),
            build_timestamp: Some(0),
            waveform: wf[..keep].to_vec(),
            baseline: adc_floor_mean64(wf) as i16,
            keep_last: 34,
            keep_bit: true,
            suppression: true,
        },
        0,
    )
}

/// Pack calibrated signals into banks (TRG first, then wires, then pads).
pub fn banks(maps: &Maps, sig: &Signals, ts: u32) -> Vec<(String, Vec<u8>)> {
    banks_with(maps, sig, ts, None)
}

/// `suppress` = Some(threshold): wire packets as the firmware sends them with data suppression enabled - cut 20 samples
/// after the last sample that is more than `threshold` counts away from the baseline, and a data-less 16-byte packet
/// for wires that never cross it.
pub fn banks_with(maps: &Maps, sig: &Signals, ts: u32, suppress: Option<i16>) -> Vec<(String, Vec<u8>)> {
    let mut out = vec![("ATAT".to_string(), trg_packet(ts))];
    for (&w, s) in &sig.wires {
        let (board, ch) = maps.wire[w];
        let wf = digitise_wire(s);
        match suppress {
            None => out.push((wire_bank_name(board, ch), wire_packet(board, ch, &wf))),
            Some(thr) => match wf.iter().rposition(|&x| (x - WIRE_BASELINE).abs() > thr) {
                Some(last) => out.push((wire_bank_name(board, ch), wire_packet_suppressed(board, ch, &wf, last + 21))),
                None => {
                    // data-less form: type 1, version 3, trigger 4, module 0, channel, requested, timestamp 7, footer 0x2000, baseline
                    let mut v = vec![1u8, 3, 0, 4, 0, 128 + ch];
                    v.extend(((wf.len() + 2) as u16).to_be_bytes());
                    v.extend([0, 0, 0, 7]);
                    v.extend(0x2000u16.to_be_bytes());
                    v.extend((adc_floor_mean64(&wf) as i16).to_be_bytes());
                    out.push((wire_bank_name(board, ch), v));
                }
            },
        }
    }
    let mut groups: BTreeMap<(&'static str, u8), Vec<(u16, Vec<i16>)>> = BTreeMap::new();
    for (&(col, row), s) in &sig.pads {
        let (board, chip, ch) = maps.pad[&(col, row)];
        groups.entry((board, chip)).or_default().push((readout_index(ch), digitise_pad(s)));
    }
    for ((board, chip), chans) in groups {
        let requested = chans[0].1.len() as u16;
        let pl = pwb_payload(board, chip, requested, &chans);
        out.extend(pwb_banks(board, chip, &pl, 8192));
    }
    out
}

pub fn event_banks(ev: &EventSpec, ts: u32) -> Vec<(String, Vec<u8>)> {
    let m = maps();
    let hits = ionisation(m, ev);
    banks(m, &signals(m, ev.sigma_z, &hits), ts)
}

/// The deterministic lattice of the forward-model parameter box (C12).
pub const LATTICE_RADICES: [u64; 5] = [5, 4, 8, 3, 9];
pub fn lattice_event(idx: u64, seed: u64) -> EventSpec {
    let d = crate::core::unrank(idx, &LATTICE_RADICES);
    let (si, ci, phase, nt, vzi) = (d[0] as usize, d[1] as usize, d[2] as usize, d[3] as usize + 2, d[4] as usize);
    // generic points of the slope range: an exactly horizontal track (slope 0) is a measure-zero
    // degenerate case of the stated distribution (all clusters on one pad row)
    let slopes = [-0.8, -0.43, 0.07, 0.38, 0.8];
    let radii = [0.3, 0.6, 1.2, 3.3];
    // not a multiple of the 4 mm pad pitch: an exactly horizontal track whose z sits on a pad
    // boundary gives two bit-equal pad amplitudes and therefore no pad maximum (measure-zero case)
    let vz = -0.7857 + 0.19675 * vzi as f64;
    let k = idx as usize + seed as usize;
    let grid = [-0.01, 0.0, 0.01];
    let vertex = [grid[k % 3], grid[(k / 3) % 3], vz];
    let offset = seed as f64 * 0.1234;
    let tracks = (0..nt)
        .map(|j| TrackSpec {
            phi0: offset + 2.0 * PI * (j as f64 / nt as f64) + phase as f64 * 2.0 * PI / (8.0 * nt as f64) + 0.37 * j as f64,
            radius: radii[(ci + j) % 4],
            charge: if j % 2 == 0 { 1.0 } else { -1.0 },
            lambda: slopes[(si + 2 * j) % 5],
        })
        .collect();
    EventSpec { vertex, tracks, amp: [50.0, 100.0, 150.0][(k / 9) % 3], sigma_z: [0.003, 0.0045, 0.006][(k / 27) % 3], step: 0.003 }
}
