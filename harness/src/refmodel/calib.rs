//! R6 (calibration part): independent readers of the shipped calibration files
//! and a snapshot of the documented run-number dispatch (pinned tree).
use std::collections::HashMap;
use std::sync::OnceLock;

fn dir() -> String {
    format!("{}/physics/data/calibration", crate::core::repo_dir())
}
pub const SIM_RUN: u32 = u32::MAX;

fn wire_file_baseline(name: &str) -> HashMap<usize, i16> {
    let d: HashMap<String, (f64, f64, f64)> = serde_json::from_slice(&std::fs::read(format!("{}/wires/baseline/{name}", dir())).expect("calibration file")).expect("json");
    d.into_iter().map(|(k, v)| (k.parse().unwrap(), v.0.round() as i16)).collect()
}
fn wire_file_gain(name: &str) -> HashMap<usize, f64> {
    let d: HashMap<String, f64> = serde_json::from_slice(&std::fs::read(format!("{}/wires/gain/{name}", dir())).expect("calibration file")).expect("json");
    d.into_iter().map(|(k, v)| (k.parse().unwrap(), v)).collect()
}

/// tiny scanner for `{(column:C,row:R):VALUE,...}` where VALUE is a number or a `(a,b,c)` tuple
fn pad_file(path: &str) -> HashMap<(usize, usize), f64> {
    let s = std::fs::read_to_string(format!("{}/pads/{path}", dir())).expect("calibration file");
    let mut out = HashMap::new();
    let mut rest = s.as_str();
    while let Some(p) = rest.find("(column:") {
        rest = &rest[p + 8..];
        let c_end = rest.find(',').unwrap();
        let col: usize = rest[..c_end].trim().parse().unwrap();
        let r_start = rest.find("row:").unwrap() + 4;
        let r_end = rest.find(')').unwrap();
        let row: usize = rest[r_start..r_end].trim().parse().unwrap();
        rest = &rest[r_end + 1..];
        let colon = rest.find(':').unwrap();
        rest = rest[colon + 1..].trim_start();
        let val_str = if let Some(stripped) = rest.strip_prefix('(') {
            &stripped[..stripped.find(',').unwrap()]
        } else {
            let end = rest.find([',', '}']).unwrap();
            &rest[..end]
        };
        out.insert((col, row), val_str.trim().parse().unwrap());
    }
    out
}

pub struct Calib {
    pub wire_baseline: Vec<(u32, HashMap<usize, i16>)>, // (first run, map), ascending; SIM separately
    pub wire_baseline_sim: HashMap<usize, i16>,
    pub wire_gain: Vec<(u32, HashMap<usize, f64>)>,
    pub wire_gain_sim: HashMap<usize, f64>,
    pub pad_baseline: Vec<(u32, HashMap<(usize, usize), i16>)>,
    pub pad_baseline_sim: HashMap<(usize, usize), i16>,
    pub pad_gain: Vec<(u32, HashMap<(usize, usize), f64>)>,
    pub pad_gain_sim: HashMap<(usize, usize), f64>,
}

pub fn calib() -> &'static Calib {
    static C: OnceLock<Calib> = OnceLock::new();
    C.get_or_init(|| {
        let pb = |p: &str| -> HashMap<(usize, usize), i16> { pad_file(p).into_iter().map(|(k, v)| (k, v.round() as i16)).collect() };
        Calib {
            wire_baseline: vec![(7026, wire_file_baseline("7026_complete.json"))],
            wire_baseline_sim: wire_file_baseline("simulation_complete.json"),
            wire_gain: vec![(9277, wire_file_gain("9277_complete.json")), (11084, wire_file_gain("11186_complete.json"))],
            wire_gain_sim: wire_file_gain("simulation_complete.json"),
            pad_baseline: vec![(9277, pb("baseline/9277_complete_handwritten_cherry_picked_see_commit.ron")), (11084, pb("baseline/11192_complete.ron"))],
            pad_baseline_sim: pb("baseline/simulation_complete.ron"),
            pad_gain: vec![(9277, pad_file("gain/9277_complete.ron")), (11084, pad_file("gain/11186_complete.ron"))],
            pad_gain_sim: pad_file("gain/simulation_complete.ron"),
        }
    })
}

fn pick<'a, T>(run: u32, sim: &'a T, list: &'a [(u32, T)]) -> Option<&'a T> {
    if run == SIM_RUN {
        return Some(sim);
    }
    list.iter().rev().find(|(first, _)| run >= *first).map(|(_, m)| m)
}

pub fn wire_delay(run: u32) -> Option<usize> {
    if run == SIM_RUN { Some(100) } else if run >= 7000 { Some(129) } else { None }
}
pub fn pad_delay(run: u32) -> Option<usize> {
    if run == SIM_RUN { Some(100) } else if run >= 7000 { Some(115) } else { None }
}
/// (baseline, gain, delay) of a wire, None if any calibration is unavailable
pub fn wire_cal(run: u32, wire: usize) -> Option<(i16, f64, usize)> {
    let c = calib();
    Some((*pick(run, &c.wire_baseline_sim, &c.wire_baseline)?.get(&wire)?, *pick(run, &c.wire_gain_sim, &c.wire_gain)?.get(&wire)?, wire_delay(run)?))
}
pub fn pad_cal(run: u32, pad: (usize, usize)) -> Option<(i16, f64, usize)> {
    let c = calib();
    Some((*pick(run, &c.pad_baseline_sim, &c.pad_baseline)?.get(&pad)?, *pick(run, &c.pad_gain_sim, &c.pad_gain)?.get(&pad)?, pad_delay(run)?))
}
